package cache

import (
	"fmt"
	"strings"
	"time"

	"github.com/glyphlang/glyph/internal/verif/vk"
	"github.com/glyphlang/glyph/internal/verif/vrt"
)

type c20Op struct {
	Op   string
	Key  string
	Size int
	TTL  int
}

func (o c20Op) String() string { return fmt.Sprintf("%s(%s,%d,%d)", o.Op, o.Key, o.Size, o.TTL) }

type c20Scenario struct {
	Name    string
	Cfg     c20Config
	Setup   []c20Op
	Threads [][]c20Op
	Final   []c20Op
}

func c20Scenarios(thorough bool) []c20Scenario {
	out := c20HandScenarios()
	// generated: every 2-thread program with (1,≤2) operations per thread
	// (thorough: (≤2,≤2)) over a small colliding alphabet, from three setups.
	alpha := []c20Op{{Op: "get", Key: "a"}, {Op: "set", Key: "a", Size: 2}, {Op: "set", Key: "b", Size: 3},
		{Op: "delete", Key: "a"}, {Op: "clear"}, {Op: "stats"}}
	var seqs1, seqs2 [][]c20Op
	for _, x := range alpha {
		seqs1 = append(seqs1, []c20Op{x})
		for _, y := range alpha {
			seqs2 = append(seqs2, []c20Op{x, y})
		}
	}
	all := append(append([][]c20Op{}, seqs1...), seqs2...)
	left := seqs1
	if thorough {
		left = all
	}
	setups := []struct {
		name string
		cfg  c20Config
		ops  []c20Op
	}{
		{"empty-cap1", c20Config{1, 0, 0}, nil},
		{"a-cap2", c20Config{2, 0, 0}, []c20Op{{Op: "set", Key: "a", Size: 3}}},
		{"ab-cap2-max6", c20Config{2, 6, 0}, []c20Op{{Op: "set", Key: "a", Size: 2}, {Op: "set", Key: "b", Size: 2}}},
	}
	fin := []c20Op{{Op: "get", Key: "a"}, {Op: "get", Key: "b"}, {Op: "stats"}}
	for _, su := range setups {
		for i, l := range left {
			for j, r := range all {
				if len(l) == len(r) && j < i {
					continue // unordered pair already covered
				}
				name := fmt.Sprintf("gen/%s/%v||%v", su.name, l, r)
				out = append(out, c20Scenario{name, su.cfg, su.ops, [][]c20Op{l, r}, fin})
			}
		}
	}
	return out
}

func c20HandScenarios() []c20Scenario {
	g := func(k string) c20Op { return c20Op{Op: "get", Key: k} }
	s := func(k string, n int) c20Op { return c20Op{Op: "set", Key: k, Size: n} }
	d := func(k string) c20Op { return c20Op{Op: "delete", Key: k} }
	st := c20Op{Op: "stats"}
	fin := []c20Op{g("a"), g("b"), g("c"), st}
	return []c20Scenario{
		{"set-set-same-key", c20Config{2, 0, 0}, nil, [][]c20Op{{s("a", 1)}, {s("a", 3)}}, fin},
		{"cross-set-get-cap1", c20Config{1, 0, 0}, nil, [][]c20Op{{s("a", 1), g("b")}, {s("b", 1), g("a")}}, fin},
		{"get-vs-evicting-set", c20Config{2, 0, 0}, []c20Op{s("a", 1), s("b", 1)}, [][]c20Op{{g("a")}, {s("c", 1)}}, fin},
		{"delete-get-set", c20Config{2, 0, 0}, []c20Op{s("a", 1)}, [][]c20Op{{d("a")}, {g("a")}, {s("a", 3)}}, fin},
		{"size-limit-two-setters", c20Config{3, 4, 0}, []c20Op{s("a", 3)}, [][]c20Op{{s("b", 3)}, {s("c", 1), g("a")}}, fin},
		{"cleanup-tick-vs-get-set", c20Config{2, 0, 0}, []c20Op{{Op: "set", Key: "a", Size: 1, TTL: 5}, s("b", 1), {Op: "advance", Size: 6}},
			[][]c20Op{{{Op: "tick"}}, {g("a"), s("a", 3)}, {g("b")}}, fin},
		{"clear-vs-set-get", c20Config{2, 0, 0}, []c20Op{s("a", 1)}, [][]c20Op{{{Op: "clear"}}, {s("b", 1), g("a")}}, fin},
		{"stats-vs-set", c20Config{2, 0, 0}, nil, [][]c20Op{{st}, {s("a", 3)}, {s("b", 1)}}, fin},
		{"get-get-same-key", c20Config{2, 0, 0}, []c20Op{s("a", 1), s("b", 1)}, [][]c20Op{{g("a")}, {g("a")}, {g("b")}}, fin},
		{"delete-vs-delete-set", c20Config{2, 0, 0}, []c20Op{s("a", 1)}, [][]c20Op{{d("a")}, {d("a"), s("a", 3)}}, fin},
	}
}

func c20Do(c *LRUCache, o c20Op, concurrent bool) string {
	switch o.Op {
	case "get":
		v, ok := c.Get(o.Key)
		if !ok {
			return "miss"
		}
		return fmt.Sprint(v)
	case "set":
		val := strings.Repeat(o.Key, max(o.Size, 1))
		if err := c.Set(o.Key, val, time.Duration(o.TTL)*time.Second); err != nil {
			return "err"
		}
		return "ok"
	case "delete":
		c.Delete(o.Key)
		return "ok"
	case "clear":
		c.Clear()
		return "ok"
	case "stats":
		st := c.Stats()
		return fmt.Sprintf("n=%d,size=%d", st.EntryCount, st.Size)
	case "advance":
		vrt.Advance(time.Duration(o.Size) * time.Second)
		return "ok"
	case "tick":
		if concurrent {
			vrt.AdvanceNoWait(60 * time.Second)
		} else {
			vrt.Advance(60 * time.Second)
		}
		return "ok"
	}
	panic("unknown op " + o.Op)
}

type c20Obs struct {
	ops     []vk.LinOp
	flat    []c20Op
	struct_ string
}

// c20Concurrent is the body of one controlled execution of a scenario.
func c20Concurrent(sc c20Scenario, obs *c20Obs) func() {
	return func() {
		// every cache has an eviction callback (an embedder's metrics or write-back hook): code that runs callbacks
		// outside the critical section opens a window that caches without a callback never show
		evicted := 0
		c := NewLRUCache(WithCapacity(sc.Cfg.Cap), WithMaxSize(sc.Cfg.MaxSize), WithDefaultTTL(time.Duration(sc.Cfg.TTL)*time.Second),
			WithOnEvict(func(string, interface{}) { evicted++; vrt.SchedPoint("onEvict", nil) }))
		defer c.Close()
		for _, o := range sc.Setup {
			c20Do(c, o, false)
		}
		vrt.WaitIdle()
		clock := 0
		var fs []func()
		for ti, th := range sc.Threads {
			ti, th := ti, th
			fs = append(fs, func() {
				for _, o := range th {
					clock++
					call := clock
					r := c20Do(c, o, true)
					clock++
					ret := clock
					if o.Op == "tick" {
						ret = 1 << 20 // effect takes place asynchronously, any time before the join
					}
					obs.ops = append(obs.ops, vk.LinOp{Thread: ti, Name: o.String(), Call: call, Ret: ret, Result: r})
					obs.flat = append(obs.flat, o)
				}
			})
		}
		vrt.Parallel(fs...)
		vrt.WaitIdle()
		clock = 1 << 21
		for _, o := range sc.Final {
			clock++
			call := clock
			r := c20Do(c, o, false)
			clock++
			obs.ops = append(obs.ops, vk.LinOp{Thread: -1, Name: o.String(), Call: call, Ret: clock, Result: r})
			obs.flat = append(obs.flat, o)
		}
		s := &c20Sys{cfg: sc.Cfg, c: c}
		_, obs.struct_ = s.implList()
	}
}

// c20Sequential replays ops in the given order on a fresh cache.
func c20Sequential(sc c20Scenario, ops []c20Op) []string {
	var out []string
	vrt.RunOnce(vrt.Config{NoAutoTimers: true}, nil, func() {
		// every cache has an eviction callback (an embedder's metrics or write-back hook): code that runs callbacks
		// outside the critical section opens a window that caches without a callback never show
		evicted := 0
		c := NewLRUCache(WithCapacity(sc.Cfg.Cap), WithMaxSize(sc.Cfg.MaxSize), WithDefaultTTL(time.Duration(sc.Cfg.TTL)*time.Second),
			WithOnEvict(func(string, interface{}) { evicted++; vrt.SchedPoint("onEvict", nil) }))
		defer c.Close()
		for _, o := range sc.Setup {
			c20Do(c, o, false)
		}
		vrt.WaitIdle()
		for _, o := range ops {
			out = append(out, c20Do(c, o, false))
			vrt.WaitIdle()
		}
	})
	return out
}

func c20Judge(sc c20Scenario, x *vrt.Exec, obs *c20Obs, memo map[string][]string) string {
	if x.Outcome.Kind != "ok" {
		return x.Outcome.Kind + ": " + firstLine(x.Outcome.Detail)
	}
	if len(x.Races) > 0 {
		return "data race: " + x.Races[0]
	}
	if obs.struct_ != "" {
		return "index-corrupt: " + obs.struct_
	}
	ok, _ := vk.Linearizable(obs.ops, func(order []int) []string {
		key := fmt.Sprint(order, len(obs.flat))
		ops := make([]c20Op, len(order))
		for i, oi := range order {
			ops[i] = obs.flat[oi]
			key += ops[i].String()
		}
		if r, ok := memo[key]; ok {
			return r
		}
		r := c20Sequential(sc, ops)
		memo[key] = r
		return r
	})
	if !ok {
		var b strings.Builder
		for _, o := range obs.ops {
			fmt.Fprintf(&b, "T%d:%s=%s@[%d,%d] ", o.Thread, o.Name, o.Result, o.Call, o.Ret)
		}
		return "not linearizable: " + b.String()
	}
	return ""
}

func c20SchedKey(sc c20Scenario, fail string) string {
	kind := fail
	if i := strings.Index(fail, ":"); i > 0 {
		kind = fail[:i]
	}
	if strings.HasPrefix(fail, "data race") {
		// a race is identified by its two access sites, whatever scenario exposes it
		return "sched/" + vrt.RaceKey(fail)
	}
	return "sched/" + sc.Name + "/" + kind
}

func c20Schedules(p vk.Params, res *vk.Result) {
	bound := 2
	if p.Thorough {
		bound = 3
	}
	res.Bounds["preemption_bound"] = bound
	scs := c20Scenarios(p.Thorough)
	res.Bounds["schedule_scenarios"] = len(scs)
	for si, sc := range scs {
		if !p.Mine(si) {
			continue
		}
		memo := map[string][]string{}
		outcomes := vk.DistinctSet{}
		var obs *c20Obs
		cfg := vrt.Config{MaxPreempt: bound, Races: true, NoAutoTimers: true, Deadline: p.Deadline}
		body := func() { obs = &c20Obs{}; c20Concurrent(sc, obs)() }
		st := vrt.Explore(cfg, body, func(x *vrt.Exec) bool {
			fail := c20Judge(sc, x, obs, memo)
			var sig strings.Builder
			for _, o := range obs.ops {
				fmt.Fprintf(&sig, "%d:%s=%s;", o.Thread, o.Name, o.Result)
			}
			outcomes.Add(sig.String())
			if fail != "" {
				res.Violate(c20SchedKey(sc, fail), sc.Name+": "+fail+" schedule="+vrt.FormatChoices(x.Choices),
					c20Replay{Part: "sched", Config: sc.Cfg, Scenario: sc.Name, Choices: x.Choices})
			}
			return true
		})
		res.Evaluations += int64(st.Execs)
		res.Transitions += int64(st.Transitions)
		res.States += int64(st.States)
		res.Distinct += outcomes.Len()
		res.Count("schedules", int64(st.Execs))
		if !strings.HasPrefix(sc.Name, "gen/") {
			res.Count("sched_outcomes_"+sc.Name, outcomes.Len())
		} else if outcomes.Len() > 1 {
			res.Count("generated_scenarios_with_several_outcomes", 1)
		}
		if outcomes.Len() <= 1 && !strings.HasPrefix(sc.Name, "gen/") {
			res.Note("scenario %s: only one distinct outcome over %d schedules (nothing collided)", sc.Name, st.Execs)
		}
		if !st.Complete {
			res.Exhaustive = false
			res.Note("scenario %s stopped by %s after %d schedules", sc.Name, st.StoppedBy, st.Execs)
		}
		res.Sample(12, map[string]any{"scenario": sc.Name, "schedules": st.Execs, "distinct_outcomes": outcomes.Len(), "max_choice_points": st.MaxPoints})
	}
}

func c20ReplaySchedule(rp c20Replay, res *vk.Result) bool {
	for _, sc := range c20Scenarios(true) {
		if sc.Name != rp.Scenario {
			continue
		}
		var first string
		for i := 0; i < 2; i++ {
			obs := &c20Obs{}
			x := vrt.RunOnce(vrt.Config{Races: true, NoAutoTimers: true, Trace: true}, rp.Choices, c20Concurrent(sc, obs))
			fail := c20Judge(sc, x, obs, map[string][]string{})
			if i == 0 {
				first = fail
				fmt.Printf("replay %s choices=%v\n%s\n-> %q\n", sc.Name, rp.Choices, strings.Join(x.Trace, "\n"), fail)
			} else if fail != first {
				fmt.Printf("NONDETERMINISTIC replay: %q vs %q\n", first, fail)
				return false
			}
		}
		if first != "" {
			res.Violate(c20SchedKey(sc, first), sc.Name+": "+first, rp)
			return true
		}
		return false
	}
	return false
}
