package cache

// Verification harness for C20 (the cache behaves as a bounded LRU map).
// Injected into pkg/cache by /verif/cmd/check through a build overlay; cache.go
// is instrumented so that its mutexes, atomics, goroutines, channels and clock
// go through the controlled runtime (vrt).
//
// Part 1 (explicit-state search): for every configuration, breadth-first over
// all event histories up to a depth bound on the real LRUCache, deduplicated by
// a white-box canonical state; the oracle is evaluated on every transition.
// Part 2 (schedules): small multi-threaded harnesses under the preemption-
// bounded explorer; every complete interleaving must be linearizable against
// the sequential reference, with no deadlock, panic or data race.

import (
	"container/list"
	"fmt"
	"sort"
	"strings"
	"testing"
	"time"

	"github.com/glyphlang/glyph/internal/verif/vk"
	"github.com/glyphlang/glyph/internal/verif/vrt"
)

type c20Config struct {
	Cap     int   `json:"cap"`
	MaxSize int64 `json:"max_size"`
	TTL     int   `json:"default_ttl_s"`
}

func (c c20Config) String() string {
	return fmt.Sprintf("cap=%d,max=%d,ttl=%ds", c.Cap, c.MaxSize, c.TTL)
}

type c20Event struct {
	Op   string   `json:"op"`
	Key  string   `json:"key,omitempty"`
	Size int      `json:"size,omitempty"`
	TTL  int      `json:"ttl_s,omitempty"` // 0 default, -1 none, >0 seconds
	Tags []string `json:"tags,omitempty"`
	Adv  int      `json:"advance_s,omitempty"`
}

func (e c20Event) String() string {
	switch e.Op {
	case "set":
		return fmt.Sprintf("set(%s,size=%d,ttl=%d)", e.Key, e.Size, e.TTL)
	case "settags":
		return fmt.Sprintf("settags(%s,size=%d,%v)", e.Key, e.Size, e.Tags)
	case "advance":
		return fmt.Sprintf("advance(%ds)", e.Adv)
	case "delbytag":
		return "delbytag(" + e.Tags[0] + ")"
	case "get", "delete", "prefix":
		return e.Op + "(" + e.Key + ")"
	}
	return e.Op
}

func c20Alphabet(thorough bool) []c20Event {
	keys := []string{"a", "b"}
	if thorough {
		keys = []string{"a", "b", "c"}
	}
	var ev []c20Event
	for _, k := range keys {
		ev = append(ev, c20Event{Op: "get", Key: k})
	}
	for _, k := range keys {
		for _, s := range []int{2, 3, 5, 9} {
			ev = append(ev, c20Event{Op: "set", Key: k, Size: s})
		}
		ev = append(ev, c20Event{Op: "set", Key: k, Size: 2, TTL: 5})
		ev = append(ev, c20Event{Op: "set", Key: k, Size: 3, TTL: -1})
	}
	if !thorough {
		// a third key (one size only) so that recency order matters at capacity 2
		ev = append(ev, c20Event{Op: "get", Key: "c"}, c20Event{Op: "set", Key: "c", Size: 2})
	}
	ev = append(ev, c20Event{Op: "settags", Key: "a", Size: 2, Tags: []string{"t"}})
	ev = append(ev, c20Event{Op: "settags", Key: "b", Size: 3, Tags: []string{"t", "u"}})
	for _, k := range keys {
		ev = append(ev, c20Event{Op: "delete", Key: k})
	}
	ev = append(ev,
		c20Event{Op: "delbytag", Tags: []string{"t"}},
		c20Event{Op: "delbytag", Tags: []string{"u"}},
		c20Event{Op: "clear"},
		c20Event{Op: "prefix", Key: "a"},
		c20Event{Op: "stats"},
		c20Event{Op: "advance", Adv: 6},
		c20Event{Op: "advance", Adv: 11},
		c20Event{Op: "advance", Adv: 60},
	)
	return ev
}

func c20Configs(thorough bool) []c20Config {
	var out []c20Config
	for _, cp := range []int{0, 1, 2, 3} {
		for _, ms := range []int64{0, 2, 4, 8} {
			for _, ttl := range []int{0, 10} {
				out = append(out, c20Config{cp, ms, ttl})
			}
		}
	}
	return out
}

// ---------------------------------------------------------------------------
// reference: an unbounded map with recency ranks.  It defines what a lookup
// may return; limits are checked as invariants on the implementation state.

type refEntry struct {
	val     string
	expires time.Duration // absolute virtual time; <0 none
	seq     int           // recency
	tags    []string
}

type refModel struct {
	m   map[string]*refEntry
	seq int
	now time.Duration
}

func (r *refModel) live(k string) *refEntry {
	e := r.m[k]
	if e == nil {
		return nil
	}
	if e.expires >= 0 && r.now > e.expires {
		return nil
	}
	return e
}

type c20Sys struct {
	cfg c20Config
	hc  *HTTPCache
	c   *LRUCache
	ref *refModel
}

func newC20Sys(cfg c20Config) *c20Sys {
	hc := NewHTTPCache(DefaultHTTPCacheConfig(), WithCapacity(cfg.Cap), WithMaxSize(cfg.MaxSize),
		WithDefaultTTL(time.Duration(cfg.TTL)*time.Second))
	return &c20Sys{cfg: cfg, hc: hc, c: hc.cache, ref: &refModel{m: map[string]*refEntry{}}}
}

// snapshot of the implementation's recency list, white-box.
type implEntry struct {
	key   string
	val   string
	size  int64
	exp   time.Duration // remaining, -1 none
	tags  string
	valid bool
}

func (s *c20Sys) implList() ([]implEntry, string) {
	var out []implEntry
	c := s.c
	n := 0
	for el := c.evictList.Front(); el != nil; el = el.Next() {
		n++
		if n > 1000 {
			return out, "recency list is cyclic or longer than 1000"
		}
		en, ok := el.Value.(*Entry)
		if !ok {
			return out, "recency list holds a non-entry"
		}
		ie := implEntry{key: en.Key, size: en.Size, exp: -1, tags: strings.Join(en.Tags, "+")}
		ie.val, _ = en.Value.(string)
		if !en.ExpiresAt.IsZero() {
			ie.exp = en.ExpiresAt.Sub(vrt.Now())
		}
		if me, ok := c.items[en.Key]; !ok || me != el {
			return out, fmt.Sprintf("list entry %q is not the one indexed by the key map", en.Key)
		}
		out = append(out, ie)
	}
	if len(c.items) != len(out) {
		return out, fmt.Sprintf("key map has %d entries, recency list %d", len(c.items), len(out))
	}
	return out, ""
}

var _ = list.New

func (s *c20Sys) canon() string {
	var b strings.Builder
	l, _ := s.implList()
	for _, e := range l {
		x := fmt.Sprint(int64(e.exp / time.Second))
		if e.exp == -1 {
			x = "none"
		} else if e.exp < 0 {
			x = "expired"
		}
		fmt.Fprintf(&b, "%s=%s/%d/%s/%s;", e.key, e.val, e.size, x, e.tags)
	}
	fmt.Fprintf(&b, "|sz=%d|ec=%d|ph=%d|", s.c.currentSize, s.c.stats.EntryCount, int64(s.ref.now/time.Second)%60)
	keys := make([]string, 0, len(s.ref.m))
	for k := range s.ref.m {
		keys = append(keys, k)
	}
	sort.Strings(keys)
	// recency ranks of the reference
	type kr struct {
		k   string
		seq int
	}
	var ranks []kr
	for _, k := range keys {
		ranks = append(ranks, kr{k, s.ref.m[k].seq})
	}
	sort.Slice(ranks, func(i, j int) bool { return ranks[i].seq < ranks[j].seq })
	for i, r := range ranks {
		e := s.ref.m[r.k]
		x := int64(-1)
		if e.expires >= 0 {
			x = int64((e.expires - s.ref.now) / time.Second)
			if e.expires < s.ref.now {
				x = -2
			}
		}
		fmt.Fprintf(&b, "R%d:%s=%s/%d;", i, r.k, e.val, x)
	}
	return b.String()
}

// nextVal picks a value of the requested size that differs from what the
// reference currently holds for the key (so that stale reads are visible).
func (s *c20Sys) nextVal(key string, size int) string {
	ch := "x"
	if e := s.ref.m[key]; e != nil && strings.HasPrefix(e.val, key+"x") {
		ch = "y"
	}
	v := key + ch
	for len(v) < size {
		v += ch
	}
	return v[:max(size, 2)]
}

// apply runs one event on implementation and reference and returns a
// description of the first oracle failure ("" if none).
func (s *c20Sys) apply(e c20Event) string {
	c, ref := s.c, s.ref
	before, _ := s.implList()
	hadExpired := false
	for _, b := range before {
		if b.exp != -1 && b.exp < 0 {
			hadExpired = true
		}
	}
	effTTL := func(t int) time.Duration {
		switch {
		case t == 0:
			if s.cfg.TTL == 0 {
				return -1
			}
			return ref.now + time.Duration(s.cfg.TTL)*time.Second
		case t < 0:
			return -1
		}
		return ref.now + time.Duration(t)*time.Second
	}
	var fail string
	setLike := false
	refSeqBefore := map[string]int{}
	for k, en := range ref.m {
		refSeqBefore[k] = en.seq
	}
	switch e.Op {
	case "get":
		v, ok := c.Get(e.Key)
		want := ref.live(e.Key)
		if ok {
			sv, _ := v.(string)
			if want == nil {
				fail = fmt.Sprintf("Get(%s) returned %q but the key holds no unexpired value", e.Key, sv)
			} else if sv != want.val {
				fail = fmt.Sprintf("Get(%s) returned %q, most recently stored value is %q", e.Key, sv, want.val)
			} else {
				ref.seq++
				want.seq = ref.seq
			}
		} else if want != nil {
			// a miss is only legitimate if the entry had been evicted earlier
			for _, b := range before {
				if b.key == e.Key {
					fail = fmt.Sprintf("Get(%s) missed although the entry was present and unexpired", e.Key)
				}
			}
		}
		if !ok && ref.m[e.Key] != nil && want == nil {
			delete(ref.m, e.Key)
		}
	case "set", "settags":
		val := s.nextVal(e.Key, e.Size)
		ttl := time.Duration(e.TTL) * time.Second
		var err error
		if e.Op == "set" {
			err = c.Set(e.Key, val, ttl)
		} else {
			err = c.SetWithTags(e.Key, val, ttl, e.Tags)
		}
		ref.seq++
		if err == nil {
			ref.m[e.Key] = &refEntry{val: val, expires: effTTL(e.TTL), seq: ref.seq, tags: e.Tags}
		} else {
			// rejected: the key must not serve the rejected value; the old one may stay
		}
		setLike = true
	case "delete":
		c.Delete(e.Key)
		delete(ref.m, e.Key)
	case "delbytag":
		c.DeleteByTag(e.Tags[0])
		for k, en := range ref.m {
			for _, t := range en.tags {
				if t == e.Tags[0] {
					delete(ref.m, k)
					break
				}
			}
		}
	case "clear":
		c.Clear()
		ref.m = map[string]*refEntry{}
	case "prefix":
		s.hc.InvalidateByPrefix(e.Key)
		for k := range ref.m {
			if strings.HasPrefix(k, e.Key) {
				delete(ref.m, k)
			}
		}
	case "stats":
		st := c.Stats()
		l, _ := s.implList()
		var sum int64
		for _, x := range l {
			sum += x.size
		}
		if st.EntryCount != int64(len(l)) || st.Size != sum {
			fail = fmt.Sprintf("Stats() reports %d entries / %d bytes, cache holds %d entries / %d bytes", st.EntryCount, st.Size, len(l), sum)
		}
	case "advance":
		vrt.Advance(time.Duration(e.Adv) * time.Second)
		ref.now += time.Duration(e.Adv) * time.Second
	}
	vrt.WaitIdle()
	if fail != "" {
		return fail
	}
	// structural invariants and limits
	after, bad := s.implList()
	if bad != "" {
		return "after " + e.String() + ": " + bad
	}
	var sum int64
	for _, x := range after {
		sum += x.size
	}
	if sum != c.currentSize {
		return fmt.Sprintf("after %s: size accounting %d differs from the sum of entry sizes %d", e, c.currentSize, sum)
	}
	if len(after) > s.cfg.Cap {
		return fmt.Sprintf("after %s: %d entries exceed capacity %d", e, len(after), s.cfg.Cap)
	}
	if s.cfg.MaxSize > 0 && sum > s.cfg.MaxSize {
		return fmt.Sprintf("after %s: %d bytes exceed max size %d", e, sum, s.cfg.MaxSize)
	}
	// every present entry is what the reference says was stored last
	for _, x := range after {
		r := ref.m[x.key]
		if r == nil {
			return fmt.Sprintf("after %s: key %q is cached although it was deleted or never stored", e, x.key)
		}
		if r.val != x.val {
			return fmt.Sprintf("after %s: key %q caches %q, most recent store was %q", e, x.key, x.val, r.val)
		}
	}
	// eviction discipline: entries that disappeared in a store of another key
	if setLike {
		present := map[string]bool{}
		for _, x := range after {
			present[x.key] = true
		}
		// unexpired entries before, coldest first by the reference's recency
		// order (last successful Get or Set), not by the implementation's list
		var cold []implEntry
		for _, b := range before {
			if b.key == e.Key || (b.exp != -1 && b.exp < 0) || refSeqBefore[b.key] == 0 {
				continue
			}
			cold = append(cold, b)
		}
		sort.Slice(cold, func(i, j int) bool { return refSeqBefore[cold[i].key] < refSeqBefore[cold[j].key] })
		evicted := 0
		gap := false
		for _, b := range cold {
			if !present[b.key] {
				if gap {
					return fmt.Sprintf("after %s: %q was evicted although a less recently used entry was kept", e, b.key)
				}
				evicted++
			} else {
				gap = true
			}
		}
		if evicted > 0 && !hadExpired && present[e.Key] {
			// minimality: with one entry fewer evicted the limits would be broken
			var kept int64
			for _, x := range after {
				kept += x.size
			}
			last := cold[evicted-1]
			if len(after)+1 <= s.cfg.Cap && (s.cfg.MaxSize == 0 || kept+last.size <= s.cfg.MaxSize) {
				return fmt.Sprintf("after %s: %q was evicted although it still fitted", e, last.key)
			}
		}
	}
	return ""
}

// ---------------------------------------------------------------------------

type c20Replay struct {
	Part     string     `json:"part"`
	Config   c20Config  `json:"config"`
	Events   []c20Event `json:"events,omitempty"`
	Scenario string     `json:"scenario,omitempty"`
	Choices  []int      `json:"choices,omitempty"`
}

// runHistory executes events on a fresh cache inside a controlled run
// (default schedule) and returns (canonical state, failure, hung).
func c20RunHistory(cfg c20Config, events []c20Event) (canon, fail string, hung bool) {
	var x *vrt.Exec
	returned, p := vk.WithWatchdog(10*time.Second, func() {
		x = vrt.RunOnce(vrt.Config{NoAutoTimers: true}, nil, func() {
			s := newC20Sys(cfg)
			defer s.c.Close()
			for i, e := range events {
				if f := s.apply(e); f != "" {
					if i == len(events)-1 {
						fail = f
					} else {
						fail = "prefix:" + f
					}
					return
				}
			}
			canon = s.canon()
		})
	})
	if !returned {
		return "", "", true
	}
	if p != nil {
		return "", fmt.Sprintf("harness panic: %v", p), false
	}
	if x.Outcome.Kind != "ok" {
		return "", fmt.Sprintf("%s: %s", x.Outcome.Kind, firstLine(x.Outcome.Detail)), false
	}
	return canon, fail, false
}

func firstLine(s string) string {
	if i := strings.IndexByte(s, '\n'); i >= 0 {
		return s[:i]
	}
	return s
}

// failKey abstracts a failure to its finding key: configuration class, the
// shape of the last event and the kind of failure (numbers stripped).
func c20Key(cfg c20Config, last c20Event, fail string) string {
	kind := fail
	for _, m := range []struct{ has, k string }{
		{"exceed max size", "size-limit-exceeded"}, {"exceed capacity", "capacity-exceeded"},
		{"did not return", "operation-never-returns"}, {"size accounting", "size-accounting"},
		{"most recently stored", "stale-or-foreign-value"}, {"most recent store", "stale-or-foreign-value"},
		{"holds no unexpired", "served-dead-key"}, {"deleted or never stored", "served-dead-key"},
		{"less recently used entry was kept", "not-lru-order"}, {"still fitted", "needless-eviction"},
		{"missed although", "lost-entry"}, {"Stats()", "stats-mismatch"}, {"deadlock", "deadlock"}, {"panic", "panic"},
		{"key map", "index-corrupt"}, {"recency list", "index-corrupt"},
	} {
		if strings.Contains(fail, m.has) {
			kind = m.k
			break
		}
	}
	cc := "cap>0"
	if cfg.Cap == 0 {
		cc = "cap=0"
	}
	op := last.Op
	if last.Op == "set" || last.Op == "settags" {
		switch {
		case cfg.MaxSize > 0 && int64(last.Size) > cfg.MaxSize:
			op += ":value>max"
		default:
			op += ":value-fits"
		}
	}
	return kind + "/" + cc + "/" + op
}

func TestVerif_C20(t *testing.T) {
	p := vk.Env()
	res := vk.NewResult("part1: breadth-first search over all event histories (alphabet of get/set/settags/delete/delbytag/clear/prefix/stats/advance events on 2-3 colliding keys) of the real LRUCache per configuration, deduplicated by white-box canonical state (recency list, sizes, expiry classes, tags, size accounting, ticker phase, reference state); a state is non-trivial when distinct by that canonical form. part2: all schedules of the listed multi-threaded scenarios up to the preemption bound, judged by linearizability against the sequential reference")
	if p.Replay != "" {
		var rp c20Replay
		if err := vk.LoadReplay(p.Replay, &rp); err != nil {
			t.Fatal(err)
		}
		ok := false
		if rp.Part == "seq" {
			_, fail, hung := c20RunHistory(rp.Config, rp.Events)
			if hung {
				fail = "operation did not return within the watchdog"
			}
			if fail != "" {
				ok = true
				res.Violate(c20Key(rp.Config, rp.Events[len(rp.Events)-1], fail), fail, rp)
			}
			fmt.Printf("replay seq %v %v -> %q\n", rp.Config, rp.Events, fail)
		} else {
			ok = c20ReplaySchedule(rp, res)
		}
		res.Replayed = &ok
		res.Write(p)
		return
	}
	depth := 4
	if p.Thorough {
		depth = 6
	}
	alphabet := c20Alphabet(p.Thorough)
	configs := c20Configs(p.Thorough)
	res.Bounds["history_depth"] = depth
	res.Bounds["alphabet_size"] = len(alphabet)
	res.Bounds["configurations"] = len(configs)
	var maxDepthDone = depth
	for ci, cfg := range configs {
		if !p.Mine(ci) {
			continue
		}
		hung := false
		st := vk.BFS(len(alphabet), depth, true, p.Deadline, func(h []int) (string, bool) {
			if hung {
				return "", false
			}
			evs := make([]c20Event, len(h))
			for i, x := range h {
				evs[i] = alphabet[x]
			}
			canon, fail, hg := c20RunHistory(cfg, evs)
			if hg {
				hung = true
				res.Violate(c20Key(cfg, evs[len(evs)-1], "did not return"),
					fmt.Sprintf("%s: %s did not return within 10 s (history %v)", cfg, evs[len(evs)-1], evs),
					c20Replay{Part: "seq", Config: cfg, Events: evs})
				return "", false
			}
			if fail != "" {
				if !strings.HasPrefix(fail, "prefix:") {
					res.Violate(c20Key(cfg, evs[len(evs)-1], fail), fmt.Sprintf("%s: history %v: %s", cfg, evs, fail),
						c20Replay{Part: "seq", Config: cfg, Events: evs})
				}
				return "", false
			}
			if len(h) >= 2 {
				res.Sample(3, map[string]any{"config": cfg.String(), "history": fmt.Sprint(evs), "state": canon})
			}
			return canon, true
		})
		res.States += st.States
		res.Transitions += st.Transitions
		res.Evaluations += st.Transitions
		res.Distinct += st.States
		res.Count("configs_explored", 1)
		if st.Emptied {
			res.Count("configs_with_full_reachable_set", 1)
		}
		if !st.Complete {
			res.Exhaustive = false
			if st.MaxDepth-1 < maxDepthDone {
				maxDepthDone = st.MaxDepth - 1
			}
			res.Note("time budget reached in config %s at depth %d", cfg, st.MaxDepth)
		}
		if hung {
			// a spinning goroutine holds a core and the cache lock: stop this shard here
			res.Exhaustive = false
			res.Note("config %s: exploration stopped after a non-returning operation", cfg)
			res.Write(p)
			return
		}
	}
	res.Bounds["history_depth_completed"] = maxDepthDone
	c20Schedules(p, res)
	res.Write(p)
}
