package main

// Verification harness for C19 (a failed reload never takes the dev server
// down).  Injected into cmd/glyph by /verif/cmd/check through a build overlay.
//
// System A ("dev"): the real hotReloadManager of `glyph dev` on a loopback
// port.  Every event rewrites the watched file and calls reload() (the entry
// point the fsnotify watcher calls); after every event the harness performs an
// HTTP GET through the listening socket.  cmd/glyph/server.go is rewritten so
// that its time.Sleep calls go through the kit's manual clock (the two 100 ms
// "let the port settle" sleeps are skipped during the search; the harness waits
// for a freshly installed server to accept connections instead).
//
// Part E ("dev-watch"): the same manager with its real clock and its real
// fsnotify watcher; edits are made with atomic renames / unlink / mkdir, the
// harness synchronises on the manager's own "reload finished" log lines.
//
// System B ("lib"): pkg/hotreload.ReloadManager (instrumented: locks, channels,
// goroutines and clock go through vrt) with the real parser+compiler behind its
// CompilerInterface and a recording ServerInterface, driven through the
// exported API (file writes + virtual poll/debounce time).
//
// The deciding step is vk.BFS over edit histories on these real objects.

import (
	"bytes"
	"context"
	"encoding/json"
	"errors"
	"fmt"
	"io"
	"log"
	"net"
	"net/http"
	"os"
	"path/filepath"
	"reflect"
	"runtime"
	"strings"
	"sync"
	"syscall"
	"testing"
	"time"

	"github.com/fatih/color"
	"github.com/glyphlang/glyph/internal/verif/vk"
	"github.com/glyphlang/glyph/internal/verif/vrt"
	"github.com/glyphlang/glyph/pkg/compiler"
	"github.com/glyphlang/glyph/pkg/hotreload"
	"github.com/glyphlang/glyph/pkg/vm"
)

// ---------------------------------------------------------------------------
// events and file contents

// c19Event is one edit of the watched file.
type c19Event struct {
	Name    string // event name (also the replay token)
	Class   string // class of the file content after the edit
	Stage   string // "valid" | "syntax" | "compile" | "static" | "read" | "empty"
	Version string // marker served by the version ("v1".."v3"), "" for broken edits
}

const (
	c19SrcV1 = "@ GET /v {\n  > {version: 1}\n}\n"
	// v2 also has a route with a typed body: a served v2 must accept {"name": ...}
	// and reject a nested Part without its required sku (the type table AND whatever is derived from it)
	c19SrcV2 = "# second version\n: Part {\n  sku: str!\n}\n: Item {\n  name: str!\n  part: Part\n}\n\n@ GET /v {\n  $ n = 2\n  > {version: n}\n}\n\n@ POST /item {\n  < input: Item\n  > {accepted: input.name}\n}\n"
	c19SrcV3 = "@ static /assets \"./public\"\n\n@ GET /v {\n  > {version: 3}\n}\n"
	// broken edits carry markers 71..75 that no valid version ever has
	c19SrcLex    = "@ GET /v {\n  > {version: 71, note: \"unterminated}\n}\n"
	c19SrcParse  = "@ GET /v {\n  > {version: 72\n"
	// (the two edits that fail late redefine v2's body type)
	c19SrcSem    = ": Part {\n  sku: str\n}\n: Item {\n  name: str!\n  qty: int!\n  part: Part\n}\n\n@ GET /v {\n  $ n = 73\n  $ n = 74\n  > {version: n}\n}\n"
	c19SrcStatic = ": Part {\n  sku: str\n}\n: Item {\n  name: str!\n  qty: int!\n  part: Part\n}\n\n@ GET /v {\n  > {version: 75}\n}\n\n@ static /assets \"./missing-dir\"\n"
)

var c19Events = []c19Event{
	{"v1", "v1", "valid", "v1"},
	{"v2", "v2", "valid", "v2"},
	{"v3", "v3", "valid", "v3"},
	{"lexer-error", "lex", "syntax", ""},
	{"parser-error", "parse", "syntax", ""},
	{"semantic-error", "sem", "compile", ""},
	{"static-root-error", "static", "static", ""},
	{"empty", "empty", "empty", ""},
	{"delete", "deleted", "read", ""},
	{"unreadable", "dir", "read", ""},
	{"recreate-v1", "v1", "valid", "v1"},
}

func c19EventByName(n string) (c19Event, bool) {
	for _, e := range c19Events {
		if e.Name == n {
			return e, true
		}
	}
	return c19Event{}, false
}

func c19Text(class string) string {
	switch class {
	case "v1":
		return c19SrcV1
	case "v2":
		return c19SrcV2
	case "v3":
		return c19SrcV3
	case "lex":
		return c19SrcLex
	case "parse":
		return c19SrcParse
	case "sem":
		return c19SrcSem
	case "static":
		return c19SrcStatic
	}
	return ""
}

// c19Edit performs the edit on disk.  atomic=true writes through a temporary
// name in the same directory and renames it over the target (one directory
// event, like an editor's atomic save).
func c19Edit(file string, e c19Event, atomic bool) error {
	st, err := os.Lstat(file)
	isDir := err == nil && st.IsDir()
	switch e.Name {
	case "delete":
		return os.RemoveAll(file)
	case "unreadable":
		if isDir {
			return nil
		}
		if err := os.RemoveAll(file); err != nil {
			return err
		}
		return os.Mkdir(file, 0o755)
	case "recreate-v1":
		if err := os.RemoveAll(file); err != nil {
			return err
		}
	default:
		if isDir {
			if err := os.RemoveAll(file); err != nil {
				return err
			}
		}
	}
	text := c19Text(e.Class)
	if !atomic {
		return os.WriteFile(file, []byte(text), 0o644)
	}
	tmp := file + ".c19tmp"
	if err := os.WriteFile(tmp, []byte(text), 0o644); err != nil {
		return err
	}
	return os.Rename(tmp, file)
}

// c19LoadStage loads a source file the way the dev server does and returns the
// stage at which loading fails ("" if it loads).  Used only to calibrate the
// event classes (an event whose content is not classified as intended by the
// toolchain of this tree is dropped from the alphabet, never judged).
func c19LoadStage(file string) string {
	src, err := os.ReadFile(file)
	if err != nil {
		return "read"
	}
	mod, err := parseSource(string(src))
	if err != nil {
		return "syntax"
	}
	if _, _, _, _, err := setupRoutes(mod, file); err != nil {
		return "compile"
	}
	if err := registerStaticRoutes(http.NewServeMux(), mod, file, 1); err != nil {
		return "static"
	}
	return ""
}

var c19Dir string // scratch directory of this process (removed at the end of the test)

// c19NewDir resets the scratch directory to its initial content: main.glyph
// holding v1 and the static root ./public.
func c19NewDir() (dir, file string, err error) {
	if c19Dir == "" {
		c19Dir, err = os.MkdirTemp("/var/tmp", "C19-run-")
		if err != nil {
			c19Dir, err = os.MkdirTemp("", "C19-run-")
			if err != nil {
				return "", "", err
			}
		}
		if err := os.Mkdir(filepath.Join(c19Dir, "public"), 0o755); err != nil {
			return "", "", err
		}
		os.WriteFile(filepath.Join(c19Dir, "public", "a.txt"), []byte("asset"), 0o644)
	}
	dir = c19Dir
	file = filepath.Join(dir, "main.glyph")
	if err := os.RemoveAll(file); err != nil {
		return "", "", err
	}
	os.Remove(file + ".c19tmp")
	return dir, file, os.WriteFile(file, []byte(c19SrcV1), 0o644)
}

// c19Calibrate returns the usable alphabet for the dev server (sysA) and the
// library manager (sysB) plus notes about dropped events.
func c19Calibrate() (alphaA, alphaB []c19Event, notes []string) {
	dir, file, err := c19NewDir()
	if err != nil {
		return nil, nil, []string{"calibration: " + err.Error()}
	}
	_ = dir
	for _, e := range c19Events {
		if err := c19Edit(file, e, false); err != nil {
			notes = append(notes, fmt.Sprintf("calibration: edit %s: %v", e.Name, err))
			continue
		}
		got := c19LoadStage(file)
		want := e.Stage
		switch e.Stage {
		case "valid", "empty":
			want = ""
		}
		if got != want {
			notes = append(notes, fmt.Sprintf("event %s dropped for the dev server: content fails at stage %q, intended %q", e.Name, got, want))
		} else {
			alphaA = append(alphaA, e)
		}
		if e.Stage == "static" {
			continue // the library compiler interface has no notion of static roots
		}
		_, cerr := c19CompileFile(file)
		okB := (cerr == nil) == (e.Stage == "valid")
		if e.Stage == "empty" {
			okB = true
		}
		if e.Stage == "valid" && cerr == nil {
			bc, _ := c19CompileFile(file)
			if c19Marker(bc) != e.Version {
				okB = false
			}
		}
		if !okB {
			notes = append(notes, fmt.Sprintf("event %s dropped for the library manager: compile error = %v", e.Name, cerr))
		} else {
			alphaB = append(alphaB, e)
		}
	}
	return
}

// ---------------------------------------------------------------------------
// captured output of the CLI (also keeps the run quiet)

type c19Log struct {
	mu       sync.Mutex
	finished int // reloads that ran to completion (either outcome)
	failed   int
}

func (l *c19Log) Write(b []byte) (int, error) {
	l.mu.Lock()
	if bytes.Contains(b, []byte("Hot reload complete")) {
		l.finished++
	}
	if bytes.Contains(b, []byte("Server still running with previous version")) {
		l.finished++
		l.failed++
	}
	l.mu.Unlock()
	return len(b), nil
}

func (l *c19Log) done() int { l.mu.Lock(); defer l.mu.Unlock(); return l.finished }

var c19Out = &c19Log{}

// ---------------------------------------------------------------------------
// observation through the socket

func c19Get(port int) (obs, detail string) {
	tr := &http.Transport{DisableKeepAlives: true}
	defer tr.CloseIdleConnections()
	c := &http.Client{Transport: tr, Timeout: 60 * time.Second}
	r, err := c.Get(fmt.Sprintf("http://127.0.0.1:%d/v", port))
	if err != nil {
		if errors.Is(err, syscall.ECONNREFUSED) {
			return "down", "connection refused"
		}
		return "noanswer", err.Error()
	}
	defer r.Body.Close()
	b, _ := io.ReadAll(io.LimitReader(r.Body, 4096))
	body := strings.TrimSpace(string(b))
	var m map[string]any
	if json.Unmarshal(b, &m) == nil {
		if r.StatusCode == 200 {
			if v, ok := m["version"].(float64); ok && len(m) == 1 {
				switch v {
				case 2:
					// v2 is only being served if its typed route behaves as v2 declares it
					pr, err := c.Post(fmt.Sprintf("http://127.0.0.1:%d/item", port), "application/json", strings.NewReader(`{"name":"a"}`))
					if err != nil {
						return "noanswer", "POST /item: " + err.Error()
					}
					pb, _ := io.ReadAll(io.LimitReader(pr.Body, 4096))
					pr.Body.Close()
					var pm map[string]any
					if pr.StatusCode != 200 || json.Unmarshal(pb, &pm) != nil || pm["accepted"] != "a" {
						return "mixed", fmt.Sprintf("GET /v answers as v2 but POST /item {\"name\":\"a\"} answers %d %s", pr.StatusCode, strings.TrimSpace(string(pb)))
					}
					// v2's nested type demands a sku
					pr2, err := c.Post(fmt.Sprintf("http://127.0.0.1:%d/item", port), "application/json", strings.NewReader(`{"name":"a","part":{}}`))
					if err != nil {
						return "noanswer", "POST /item: " + err.Error()
					}
					pb2, _ := io.ReadAll(io.LimitReader(pr2.Body, 4096))
					pr2.Body.Close()
					if pr2.StatusCode < 400 || pr2.StatusCode > 499 {
						return "mixed", fmt.Sprintf("GET /v answers as v2 but POST /item {\"name\":\"a\",\"part\":{}} answers %d %s although v2's Part requires sku", pr2.StatusCode, strings.TrimSpace(string(pb2)))
					}
					return "v2", body
				case 1, 3:
					return fmt.Sprintf("v%d", int(v)), body
				}
			}
		}
		if r.StatusCode == 404 && m["error"] == "Route not found" {
			return "none", body
		}
	}
	if len(body) > 120 {
		body = body[:120]
	}
	return "other", fmt.Sprintf("%d %s", r.StatusCode, body)
}

// ---------------------------------------------------------------------------
// System A instance

type c19A struct {
	dir, file string
	port      int
	m         *hotReloadManager
	watching  bool
	note      string
}

var c19PortNext int

// c19PickPort returns a loopback port outside the ephemeral range that is
// free right now (outgoing connections of other processes never occupy it).
func c19PickPort() int {
	if c19PortNext == 0 {
		shard := vk.Env().Shard
		c19PortNext = 20000 + (shard*601+os.Getpid()*37)%9000
	}
	for i := 0; i < 2000; i++ {
		p := c19PortNext
		c19PortNext++
		if c19PortNext >= 29500 {
			c19PortNext = 20000
		}
		l, err := net.Listen("tcp", fmt.Sprintf("127.0.0.1:%d", p))
		if err == nil {
			l.Close()
			return p
		}
	}
	l, err := net.Listen("tcp", "127.0.0.1:0")
	if err != nil {
		return 0
	}
	defer l.Close()
	return l.Addr().(*net.TCPAddr).Port
}

func c19PortFree(port int) bool {
	for i := 0; i < 200; i++ {
		l, err := net.Listen("tcp", fmt.Sprintf("127.0.0.1:%d", port))
		if err == nil {
			l.Close()
			return true
		}
		time.Sleep(5 * time.Millisecond)
	}
	return false
}

var c19Port int // port reused by all histories of this process

func c19NewA(watch bool) (*c19A, error) {
	if c19Port == 0 {
		c19Port = c19PickPort()
	}
	dir, file, err := c19NewDir()
	if err != nil {
		return nil, err
	}
	a := &c19A{dir: dir, file: file, port: c19Port}
	a.m = &hotReloadManager{filePath: file, port: a.port, liveReloadConns: make(map[*liveReloadConn]bool)}
	vrt.SetManualClock(!watch)
	var serr error
	returned, pv := vk.WithWatchdog(60*time.Second, func() { serr = a.m.startServer() })
	if !returned || pv != nil || serr != nil {
		a.close()
		return nil, fmt.Errorf("initial startServer: returned=%v panic=%v err=%v", returned, pv, serr)
	}
	if obs, d := a.observe(); obs != "v1" {
		a.close()
		return nil, fmt.Errorf("initial server does not serve v1: %s %s", obs, d)
	}
	if watch {
		go a.m.watchForChanges()
		ok := false
		for i := 0; i < 4000 && !ok; i++ {
			a.m.mu.Lock() // (watchForChanges does not take mu; this is only a barrier for the race detector-free read below)
			w := a.m.watcher
			a.m.mu.Unlock()
			if w != nil {
				for _, p := range w.WatchList() {
					if p == dir {
						ok = true
					}
				}
			}
			if !ok {
				time.Sleep(5 * time.Millisecond)
			}
		}
		if !ok {
			a.close()
			return nil, fmt.Errorf("fsnotify watch on %s not established", dir)
		}
		a.watching = true
	}
	return a, nil
}

// c19ListenerPending reports whether a goroutine started by the manager to run
// a server has not reached net/http.(*Server).Serve yet (it is still about to
// bind the port).  Decided from the goroutine dump, not from elapsed time.
func c19ListenerPending() bool {
	buf := make([]byte, 1<<20)
	for {
		n := runtime.Stack(buf, true)
		if n < len(buf) {
			buf = buf[:n]
			break
		}
		buf = make([]byte, 2*len(buf))
	}
	for _, g := range strings.Split(string(buf), "\n\n") {
		if strings.Contains(g, "created by github.com/glyphlang/glyph/cmd/glyph.(*hotReloadManager).") &&
			!strings.Contains(g, "watchForChanges") &&
			!strings.Contains(g, "net/http.(*Server).Serve(") {
			return true
		}
	}
	return false
}

// observe performs the GET.  No reload is in progress while it runs (the
// manager's mutex is held).  A refused connection is final when no goroutine
// of the manager is still on its way to bind the port; otherwise the GET is
// retried (generous watchdog of 60 s for a listener that never gets there).
func (a *c19A) observe() (obs, detail string) {
	deadline := time.Now().Add(60 * time.Second)
	pause := 100 * time.Microsecond
	for {
		runtime.Gosched() // lets a listener goroutine that was just started reach Accept
		a.m.mu.Lock()
		obs, detail = c19Get(a.port)
		pending := false
		if obs == "down" {
			// the dump is taken after the refused GET: a listener may have
			// bound in between, so the answer that counts is a GET made when
			// every server goroutine is either serving or gone
			if pending = c19ListenerPending(); !pending {
				obs, detail = c19Get(a.port)
			}
		}
		a.m.mu.Unlock()
		if !pending {
			return
		}
		if time.Now().After(deadline) {
			a.note = "a server goroutine started by the manager never reached Serve"
			return
		}
		time.Sleep(pause)
		if pause < 20*time.Millisecond {
			pause *= 2
		}
	}
}

func (a *c19A) close() {
	if a.m != nil {
		if a.m.watcher != nil {
			a.m.watcher.Close()
		}
		locked := make(chan struct{})
		go func() {
			a.m.mu.Lock()
			if a.m.server != nil {
				a.m.server.Close()
			}
			a.m.mu.Unlock()
			close(locked)
		}()
		select {
		case <-locked:
		case <-time.After(10 * time.Second):
		}
	}
	vrt.SetManualClock(false)
	if !c19PortFree(a.port) {
		c19PortLeaks++
		c19Port = 0 // a listener is still bound: continue on another port
	}
}

var c19PortLeaks int64

// ---------------------------------------------------------------------------
// reference and judgement (shared by A and E)

type c19Step struct {
	Event string `json:"event"`
	Obs   string `json:"observed"`
	Want  string `json:"expected"`
	Fail  string `json:"fail,omitempty"` // failure kind
	Desc  string `json:"desc,omitempty"`
}

// c19Ref is the reference: the marker of the most recent version that loaded.
type c19Ref struct {
	expected string // "v1".."v3" | "none" (the empty program: no routes)
	prevUp   bool
}

// judge evaluates one observation.  Returns failure kind ("" = fine) and the
// set of acceptable answers (for the report).
func (r *c19Ref) judge(e c19Event, obs string) (kind, want string) {
	up := obs != "down" && obs != "noanswer"
	defer func() { r.prevUp = up }()
	switch e.Stage {
	case "valid":
		r.expected = e.Version
		want = e.Version
		if obs != want {
			return "valid-edit-not-served", want
		}
		return "", want
	case "empty":
		// unspecified whether an empty file is a program without routes that
		// loads, or a failed load: both answers are accepted, silence is not
		want = r.expected + "|none"
		if !r.prevUp {
			return "", want // already down: reported when it went down
		}
		if obs == "none" {
			r.expected = "none"
			return "", want
		}
		if obs == r.expected {
			return "", want
		}
		if !up {
			return "down", want
		}
		return "wrong-version", want
	}
	want = r.expected
	if !r.prevUp {
		// the server was already down before this broken edit; that was
		// reported at the step where it went down
		if !up {
			return "", want
		}
	}
	if !up {
		return "down", want
	}
	if obs == "mixed" {
		return "mixed-version", want
	}
	if obs != want {
		return "wrong-version", want
	}
	return "", want
}

func c19Key(part string, e c19Event, kind string, fromUp bool) string {
	from := "from-up"
	if !fromUp {
		from = "from-down"
	}
	sys := map[string]string{"A": "dev", "E": "dev-watch", "B": "lib", "L": "dev-live-client"}[part]
	if part == "E" && kind == "down" {
		sys = "dev" // the same defect seen through the watcher
	}
	if kind == "down" {
		return sys + "/down/after-" + e.Stage + "-edit"
	}
	if part == "B" {
		return sys + "/" + kind + "/" + e.Stage
	}
	return sys + "/" + kind + "/" + e.Stage + "/" + from
}

type c19Replay struct {
	Part    string   `json:"part"` // A | E | B | L | S
	Events  []string `json:"events"`
	Choices []int    `json:"choices,omitempty"` // part S: the schedule
}

// ---------------------------------------------------------------------------
// System A: run one history through reload()

// c19RunA replays the history on a fresh manager.  harness != "" means the
// environment failed (nothing is judged).
// c19LiveClient: a browser tab with the live-reload script keeps one request to /__livereload open for as long as
// the page is shown.  The client is connected before every edit (a tab reconnects after each reload) and closed
// before the manager is torn down.
type c19LiveClient struct{ conn net.Conn }

func c19DialLive(port int) (*c19LiveClient, error) {
	conn, err := net.DialTimeout("tcp", fmt.Sprintf("127.0.0.1:%d", port), 10*time.Second)
	if err != nil {
		return nil, err
	}
	if _, err := conn.Write([]byte("GET /__livereload HTTP/1.1\r\nHost: localhost\r\nAccept: text/event-stream\r\n\r\n")); err != nil {
		conn.Close()
		return nil, err
	}
	// wait for the response head: the handler is running from here on
	conn.SetReadDeadline(time.Now().Add(30 * time.Second))
	buf := make([]byte, 512)
	if _, err := conn.Read(buf); err != nil {
		conn.Close()
		return nil, fmt.Errorf("no response head from /__livereload: %v", err)
	}
	conn.SetReadDeadline(time.Time{})
	go io.Copy(io.Discard, conn)
	return &c19LiveClient{conn}, nil
}

func (c *c19LiveClient) close() {
	if c != nil && c.conn != nil {
		c.conn.Close()
	}
}

func c19RunA(events []c19Event) (steps []c19Step, canon string, harness string) {
	return c19RunAWith(events, false)
}

func c19RunAWith(events []c19Event, liveClient bool) (steps []c19Step, canon string, harness string) {
	a, err := c19NewA(false)
	if err != nil {
		return nil, "", err.Error()
	}
	defer a.close()
	var clients []*c19LiveClient
	defer func() {
		for _, c := range clients {
			c.close()
		}
		if liveClient {
			time.Sleep(20 * time.Millisecond) // let the handlers see the closed connections before the manager stops its server
		}
	}()
	ref := &c19Ref{expected: "v1", prevUp: true}
	obs := "v1"
	class := "v1"
	for _, e := range events {
		if liveClient && obs != "down" && obs != "noanswer" {
			c, err := c19DialLive(a.port)
			if err != nil {
				return steps, "", "live-reload client: " + err.Error()
			}
			clients = append(clients, c)
		}
		if err := c19Edit(a.file, e, false); err != nil {
			return steps, "", "edit: " + err.Error()
		}
		class = e.Class
		var d string
		returned, pv := vk.WithWatchdog(180*time.Second, func() {
			a.m.reload()
			obs, d = a.observe()
		})
		st := c19Step{Event: e.Name, Obs: obs}
		fromUp := ref.prevUp
		if !returned {
			st.Fail, st.Desc = "reload-never-returns", "reload() or the following GET did not return within 180 s"
			steps = append(steps, st)
			a.m = nil // cannot be cleaned up
			c19Port = 0
			return steps, "", ""
		}
		if pv != nil {
			st.Fail, st.Desc = "reload-panics", fmt.Sprint(pv)
			steps = append(steps, st)
			return steps, "", ""
		}
		st.Fail, st.Want = ref.judge(e, obs)
		if st.Fail != "" {
			st.Desc = fmt.Sprintf("after %s the GET observed %s (%s), expected %s", e.Name, obs, d, st.Want)
			if a.note != "" {
				st.Desc += "; " + a.note
			}
			if !fromUp {
				st.Desc += " (the server was down before this edit)"
			}
		}
		st.Event = e.Name
		steps = append(steps, st)
		if st.Fail != "" && st.Fail != "down" {
			return steps, "", ""
		}
	}
	srvState := "set"
	if a.m.server == nil {
		srvState = "nil"
	}
	return steps, fmt.Sprintf("served=%s|file=%s|ref=%s|server=%s", obs, class, ref.expected, srvState), ""
}

// ---------------------------------------------------------------------------
// Part E: the same through the fsnotify watcher, real clock

func c19RunE(events []c19Event, budget time.Time) (steps []c19Step, harness string) {
	a, err := c19NewA(true)
	if err != nil {
		return nil, err.Error()
	}
	defer a.close()
	ref := &c19Ref{expected: "v1", prevUp: true}
	for _, e := range events {
		if !budget.IsZero() && time.Now().After(budget) {
			return steps, "time budget"
		}
		n0 := c19Out.done()
		if err := c19Edit(a.file, e, true); err != nil {
			return steps, "edit: " + err.Error()
		}
		var obs, d string
		triggered := true
		returned, pv := vk.WithWatchdog(300*time.Second, func() {
			deadline := time.Now().Add(10 * time.Second)
			if e.Name != "delete" { // an unlink alone does not trigger a reload
				for c19Out.done() == n0 {
					if time.Now().After(deadline) {
						triggered = false
						break
					}
					time.Sleep(5 * time.Millisecond)
				}
			}
			obs, d = a.observe()
			if e.Stage == "valid" {
				// never judge a valid edit early: wait until it is served
				deadline = time.Now().Add(10 * time.Second)
				for obs != e.Version && !time.Now().After(deadline) {
					time.Sleep(10 * time.Millisecond)
					obs, d = a.observe()
				}
				triggered = true
			}
		})
		st := c19Step{Event: e.Name, Obs: obs}
		if !returned || pv != nil {
			st.Fail, st.Desc = "reload-never-returns", fmt.Sprintf("returned=%v panic=%v", returned, pv)
			steps = append(steps, st)
			if !returned {
				a.m = nil
				c19Port = 0
			}
			return steps, ""
		}
		if !triggered {
			// no reload ran for a broken edit: nothing to judge at this step
			st.Desc = "no reload was triggered within 10 s"
			st.Obs = "untriggered"
			steps = append(steps, st)
			continue
		}
		st.Fail, st.Want = ref.judge(e, obs)
		if st.Fail != "" {
			st.Desc = fmt.Sprintf("after %s (through the watcher) the GET observed %s (%s), expected %s", e.Name, obs, d, st.Want)
			if a.note != "" {
				st.Desc += "; " + a.note
			}
		}
		steps = append(steps, st)
		if st.Fail != "" && st.Fail != "down" {
			return steps, ""
		}
	}
	return steps, ""
}

// ---------------------------------------------------------------------------
// System B: the library ReloadManager

func c19CompileFile(path string) ([]byte, error) {
	src, err := os.ReadFile(path)
	if err != nil {
		return nil, err
	}
	mod, err := parseSource(string(src))
	if err != nil {
		return nil, err
	}
	return compiler.NewCompiler().Compile(mod)
}

// c19Marker executes bytecode on a fresh VM and returns the version marker.
var c19MarkerCache = map[string]string{}

func c19Marker(bc []byte) (m string) {
	if bc == nil {
		return "nil"
	}
	if c, ok := c19MarkerCache[string(bc)]; ok {
		return c
	}
	defer func() {
		if recover() != nil {
			m = "unexecutable"
		}
		c19MarkerCache[string(bc)] = m
	}()
	v, err := vm.NewVM().Execute(bc)
	if err != nil {
		return "unexecutable"
	}
	if o, ok := v.(vm.ObjectValue); ok {
		if iv, ok := o.Val["version"].(vm.IntValue); ok {
			return fmt.Sprintf("v%d", iv.Val)
		}
	}
	return "other"
}

type c19CompileCall struct {
	path string
	bc   []byte
	err  error
}

type c19Compiler struct {
	calls []c19CompileCall
	slow  bool // a compilation takes time: the scheduler may run other threads before and after it reads the file
	// during runs while the first compilation is in progress (after it has read the file): the next edit arrives and
	// time passes, with scheduling points in between
	during func()
}

func (c *c19Compiler) CompileFile(path string) ([]byte, error) {
	if c.slow {
		vrt.SchedPoint("compile:start", nil)
	}
	bc, err := c19CompileFile(path)
	if c.during != nil {
		f := c.during
		c.during = nil
		f()
	}
	if c.slow {
		vrt.SchedPoint("compile:done", nil)
	}
	c.calls = append(c.calls, c19CompileCall{path, bc, err})
	return bc, err
}

// c19Server records what the manager hands to the running server.  Reload
// starts the new program with empty state, as a restarted server would.
type c19Server struct {
	bytecode []byte
	reloads  [][]byte
	state    map[string]interface{}
	sets     int
}

func (s *c19Server) Reload(bc []byte) error {
	s.reloads = append(s.reloads, bc)
	s.bytecode = bc
	s.state = map[string]interface{}{}
	return nil
}
func (s *c19Server) GetState() map[string]interface{} {
	out := map[string]interface{}{}
	for k, v := range s.state {
		out[k] = v
	}
	return out
}
func (s *c19Server) SetState(st map[string]interface{}) error {
	s.sets++
	s.state = map[string]interface{}{}
	for k, v := range st {
		s.state[k] = v
	}
	return nil
}

func c19InitialState() map[string]interface{} {
	return map[string]interface{}{"sessions": 3, "user": "ann"}
}

// c19Overlap: the library manager with edits that arrive while an earlier reload is still compiling (the debounce
// timer starts each reload on its own goroutine).  The body is one controlled execution: edits are written and the
// virtual clock advanced WITHOUT waiting for the manager to go idle, compilations have scheduling points around them;
// at quiescence the server must hold the most recent valid version on disk, and every Reload must have received
// bytecode of a successful compilation.
func c19Overlap(names []string, fail *string, harness *string) func() {
	return func() {
		*fail, *harness = "", ""
		dir, file, err := c19NewDir()
		if err != nil {
			*harness = err.Error()
			return
		}
		bc1, err := c19CompileFile(file)
		if err != nil {
			*harness = "compile v1: " + err.Error()
			return
		}
		comp := &c19Compiler{slow: true}
		srv := &c19Server{bytecode: bc1, state: c19InitialState()}
		rm := hotreload.NewReloadManager([]string{dir}, comp, srv)
		ctx, cancel := context.WithCancel(context.Background())
		defer cancel()
		if err := rm.Start(ctx); err != nil {
			*harness = "Start: " + err.Error()
			return
		}
		defer func() { rm.Stop(); vrt.WaitIdle() }()
		vrt.WaitIdle()
		// A version counts as loaded only if a compilation saw it: an edit overwritten before its reload ran was
		// never loaded.  Demanded: if the last edit is valid it is what the server holds in the end ("a later valid
		// edit always takes effect"); otherwise the server holds v1 or one of the valid edits.
		expected := ""
		valid := map[string]bool{"v1": true}
		edit := func(n string) bool {
			e, _ := c19EventByName(n)
			if err := c19Edit(file, e, false); err != nil {
				*harness = "edit: " + err.Error()
				return false
			}
			expected = ""
			if e.Stage == "valid" {
				expected = e.Version
				valid[e.Version] = true
			}
			return true
		}
		// the later edits arrive one after the other while the reload of the first edit is compiling: after each, the
		// poll tick and the debounce interval pass, with scheduling points so that the watcher and the reload the
		// debounce timer starts may run before the first reload goes on
		comp.during = func() {
			for _, n := range names[1:] {
				if !edit(n) {
					return
				}
				vrt.AdvanceNoWait(500 * time.Millisecond) // poll tick
				vrt.SchedPoint("compile:tick-passed", nil)
				vrt.AdvanceNoWait(200 * time.Millisecond) // debounce
				vrt.SchedPoint("compile:debounce-passed", nil)
			}
		}
		if !edit(names[0]) {
			return
		}
		vrt.Advance(500 * time.Millisecond) // poll tick: the watcher sees the first edit and arms the debounce timer
		vrt.WaitIdle()
		vrt.Advance(200 * time.Millisecond) // the debounce timer starts the first reload
		vrt.WaitIdle()
		vrt.Advance(1000 * time.Millisecond) // a reload that was debounced behind the last edit
		vrt.WaitIdle()
		if got := c19Marker(srv.bytecode); (expected != "" && got != expected) || (expected == "" && !valid[got]) {
			if expected == "" {
				expected = "none newer than the last valid edit"
			}
			var order []string
			for _, rb := range srv.reloads {
				order = append(order, c19Marker(rb))
			}
			*fail = fmt.Sprintf("stale-version-after-overlapping-reloads: edits %v are on disk (most recent valid version %s) and the manager is idle, but the server holds %s (Reload calls in order: %v)", names, expected, got, order)
			return
		}
		for _, rb := range srv.reloads {
			ok := false
			for _, c := range comp.calls {
				ok = ok || (c.err == nil && bytes.Equal(c.bc, rb))
			}
			if !ok {
				*fail = "reload-with-uncompiled-bytecode: server.Reload received bytecode that no successful compilation produced"
				return
			}
		}
	}
}

// c19Visible is what the polling watcher can see of the file.
func c19Visible(class string) string {
	switch class {
	case "deleted", "dir":
		return "absent"
	}
	return c19Text(class)
}

func c19RunB(events []c19Event) (steps []c19Step, canon string, harness string) {
	dir, file, err := c19NewDir()
	if err != nil {
		return nil, "", err.Error()
	}
	bc1, err := c19CompileFile(file)
	if err != nil {
		return nil, "", "compile v1: " + err.Error()
	}
	var x *vrt.Exec
	returned, pv := vk.WithWatchdog(60*time.Second, func() {
		x = vrt.RunOnce(vrt.Config{NoAutoTimers: true, MaxSteps: 2000000}, nil, func() {
			comp := &c19Compiler{}
			srv := &c19Server{bytecode: bc1, state: c19InitialState()}
			var evs []hotreload.ReloadEvent
			rm := hotreload.NewReloadManager([]string{dir}, comp, srv,
				hotreload.WithOnReload(func(ev hotreload.ReloadEvent) { evs = append(evs, ev) }))
			ctx, cancel := context.WithCancel(context.Background())
			defer cancel()
			if err := rm.Start(ctx); err != nil {
				harness = "Start: " + err.Error()
				return
			}
			defer func() { rm.Stop(); vrt.WaitIdle() }()
			vrt.WaitIdle()
			class := "v1"
			expected := "v1"
			for _, e := range events {
				nEv, nComp, nRel, nSet := len(evs), len(comp.calls), len(srv.reloads), srv.sets
				before := srv.bytecode
				changed := c19Visible(class) != c19Visible(e.Class)
				if err := c19Edit(file, e, false); err != nil {
					harness = "edit: " + err.Error()
					return
				}
				class = e.Class
				vrt.Advance(1000 * time.Millisecond) // ≥ one poll tick (500 ms) + the debounce (200 ms)
				vrt.WaitIdle()
				st := c19Step{Event: e.Name, Obs: c19Marker(srv.bytecode), Want: expected}
				newEv, newComp, newRel := evs[nEv:], comp.calls[nComp:], srv.reloads[nRel:]
				fail := func(kind, f string, a ...any) {
					if st.Fail == "" {
						st.Fail, st.Desc = kind, fmt.Sprintf("after %s: ", e.Name)+fmt.Sprintf(f, a...)
					}
				}
				// Reload only ever receives bytecode of a valid version that compiled now
				for _, rb := range newRel {
					ok := false
					for _, c := range newComp {
						if c.err == nil && c.bc != nil && bytes.Equal(c.bc, rb) {
							ok = true
						}
					}
					mk := c19Marker(rb)
					if !ok {
						fail("reload-with-uncompiled-bytecode", "server.Reload received bytecode (%s) that is not the result of a successful compilation of the edited file", mk)
					} else if e.Stage != "empty" && mk != e.Version {
						fail("reload-with-uncompiled-bytecode", "server.Reload received bytecode with marker %s, the edit is %s", mk, e.Name)
					}
				}
				switch {
				case !changed:
					if len(newRel) > 0 {
						fail("reload-without-change", "%d Reload calls although the watched content did not change", len(newRel))
					}
				case e.Stage == "valid":
					expected = e.Version
					st.Want = expected
					if len(newEv) == 0 || len(newRel) == 0 {
						fail("valid-edit-not-loaded", "%d reload events, %d Reload calls; the server holds %s", len(newEv), len(newRel), st.Obs)
					} else if st.Obs != e.Version {
						fail("valid-edit-not-loaded", "the server holds %s", st.Obs)
					} else if !newEv[len(newEv)-1].Success || newEv[len(newEv)-1].Error != nil {
						fail("success-flag-mismatch", "the new version was handed to the server but the ReloadEvent says Success=%v Error=%v", newEv[len(newEv)-1].Success, newEv[len(newEv)-1].Error)
					} else if !reflect.DeepEqual(srv.state, c19InitialState()) {
						fail("state-not-restored", "server state after the reload is %v, before it was %v", srv.state, c19InitialState())
					}
				case e.Stage == "empty":
					// unspecified whether an empty file loads; flags must be consistent
					for _, ev := range newEv {
						if ev.Success != (ev.Error == nil) {
							fail("success-flag-mismatch", "ReloadEvent Success=%v with Error=%v", ev.Success, ev.Error)
						}
					}
					if len(newRel) == 0 && !bytes.Equal(before, srv.bytecode) {
						fail("bytecode-replaced-without-reload", "server bytecode changed without Reload")
					}
					if len(newRel) > 0 {
						expected = c19Marker(srv.bytecode)
					}
					if len(newRel) == 0 && len(newEv) > 0 && newEv[len(newEv)-1].Success {
						fail("success-flag-mismatch", "ReloadEvent says Success but nothing was handed to the server")
					}
				default: // broken edit
					if len(newRel) > 0 {
						fail("reload-after-failed-compile", "server.Reload was called %d times although the edited file does not compile", len(newRel))
					} else if st.Obs != expected {
						fail("wrong-version", "the server holds %s, most recent valid version is %s", st.Obs, expected)
					}
					for _, ev := range newEv {
						if ev.Success || ev.Error == nil {
							fail("success-flag-mismatch", "ReloadEvent for a file that does not compile has Success=%v Error=%v", ev.Success, ev.Error)
						}
					}
					if len(newEv) == 0 {
						fail("failure-not-reported", "no ReloadEvent was delivered for the broken edit")
					}
					if srv.sets != nSet && !reflect.DeepEqual(srv.state, c19InitialState()) {
						fail("state-not-restored", "server state changed to %v on a failed reload", srv.state)
					}
				}
				if st.Fail == "" && !reflect.DeepEqual(srv.state, c19InitialState()) {
					fail("state-not-restored", "server state is %v, application state before the edit was %v", srv.state, c19InitialState())
				}
				steps = append(steps, st)
				if st.Fail != "" {
					return
				}
			}
			canon = fmt.Sprintf("held=%s|file=%s|ref=%s", c19Marker(srv.bytecode), class, expected)
		})
	})
	if !returned {
		at := events[min(len(steps), len(events)-1)].Name
		return append(steps, c19Step{Event: at, Fail: "manager-hangs", Desc: "the library manager run did not return within 60 s"}), "", ""
	}
	if pv != nil {
		return steps, "", fmt.Sprintf("harness panic: %v", pv)
	}
	if x.Outcome.Kind != "ok" {
		d := x.Outcome.Detail
		if i := strings.IndexByte(d, '\n'); i >= 0 {
			d = d[:i]
		}
		at := events[min(len(steps), len(events)-1)].Name
		return append(steps, c19Step{Event: at, Fail: "manager-" + x.Outcome.Kind, Desc: d}), "", ""
	}
	return steps, canon, harness
}

// ---------------------------------------------------------------------------

func c19Names(ev []c19Event) []string {
	out := make([]string, len(ev))
	for i, e := range ev {
		out[i] = e.Name
	}
	return out
}

// c19Run runs a history on the given part.
func c19Run(part string, evs []c19Event) (steps []c19Step, canon, harness string) {
	switch part {
	case "A":
		return c19RunA(evs)
	case "L":
		return c19RunAWith(evs, true)
	case "E":
		steps, harness = c19RunE(evs, time.Time{})
		return steps, "", harness
	}
	return c19RunB(evs)
}

// c19FailKey returns the finding key of the failure at the last step of the
// history ("" if the last step of the complete history did not fail).
func c19FailKey(part string, events []c19Event, steps []c19Step) (key, desc string) {
	if len(steps) == 0 || len(steps) != len(events) || steps[len(steps)-1].Fail == "" {
		return "", ""
	}
	last := steps[len(steps)-1]
	fromUp := true
	if part != "B" && len(steps) >= 2 {
		p := steps[len(steps)-2].Obs
		fromUp = p != "down" && p != "noanswer"
	}
	return c19Key(part, events[len(events)-1], last.Fail, fromUp), last.Desc
}

var c19Reported = map[string]bool{}

// c19Report records the failure of the last step of a history (earlier steps
// were judged when their own history was visited).  The first time a key is
// seen in this process the history is shrunk greedily (events are removed
// while the same key still fails at the last step), so the recorded case is
// minimal whichever shard finds it.
func c19Report(res *vk.Result, part string, events []c19Event, steps []c19Step, shrink bool) bool {
	key, desc := c19FailKey(part, events, steps)
	if key == "" {
		return false
	}
	if c19Reported[key] {
		res.Violate(key, "", nil) // counted as a suppressed duplicate
		return true
	}
	c19Reported[key] = true
	if shrink && !strings.Contains(key, "never-returns") && !strings.Contains(key, "hangs") {
		for again := true; again; {
			again = false
			for i := 0; i < len(events)-1; i++ {
				cand := append(append([]c19Event{}, events[:i]...), events[i+1:]...)
				st, _, harness := c19Run(part, cand)
				if harness != "" {
					continue
				}
				if k, d := c19FailKey(part, cand, st); k == key {
					events, desc, again = cand, d, true
					break
				}
			}
		}
	}
	res.Violate(key,
		fmt.Sprintf("%s history %v: %s", map[string]string{"A": "dev server (reload())", "E": "dev server (fsnotify watcher)", "B": "library ReloadManager"}[part], c19Names(events), desc),
		c19Replay{Part: part, Events: c19Names(events)})
	return true
}

func c19GoroutineCensus() (httpServers, watchers, hubs, total int) {
	buf := make([]byte, 64<<20)
	buf = buf[:runtime.Stack(buf, true)]
	for _, g := range strings.Split(string(buf), "\n\n") {
		total++
		switch {
		case strings.Contains(g, "net/http.(*Server).Serve("):
			httpServers++
		case strings.Contains(g, "fsnotify"):
			watchers++
		case strings.Contains(g, "websocket.(*Hub).Run"):
			hubs++
		}
	}
	return
}

func TestVerif_C19(t *testing.T) {
	log.SetOutput(io.Discard)
	color.Output = c19Out
	color.NoColor = true
	p := vk.Env()
	defer func() { // also on the replay path and after t.Fatal
		if c19Dir != "" {
			os.RemoveAll(c19Dir)
		}
	}()
	res := vk.NewResult("explicit-state breadth-first search (vk.BFS) over all histories of edits to the watched file (valid versions v1..v3, lexer error, parser error, semantic compile error, failing static root, empty file, delete, unreadable, delete-then-recreate) on (A) the real hotReloadManager of `glyph dev` listening on a loopback port, driven through reload() with an HTTP GET after every edit, and (B) the library hotreload.ReloadManager with the real parser+compiler and a recording server, driven through file writes and virtual poll/debounce time. Every history up to the flat depth is executed (no deduplication); beyond it one search per first event is deduplicated by canonical state (version served | down, class of the file content, reference version, manager holds a server or not). Fixed histories also run through the real fsnotify watcher on the real clock. A state is non-trivial when distinct by its canonical form")
	if p.Replay != "" {
		var rp c19Replay
		if err := vk.LoadReplay(p.Replay, &rp); err != nil {
			t.Fatal(err)
		}
		if rp.Part == "S" {
			var fail, harness string
			x := vrt.RunOnce(vrt.Config{NoAutoTimers: true, MaxSteps: 2000000}, rp.Choices, c19Overlap(rp.Events, &fail, &harness))
			if x.Outcome.Kind != "ok" {
				fail = "manager-" + x.Outcome.Kind + ": " + strings.SplitN(x.Outcome.Detail, "\n", 2)[0]
			}
			ok := fail != "" && harness == ""
			fmt.Printf("replay S %v %v -> %q %s\n", rp.Events, rp.Choices, fail, harness)
			if ok {
				res.Violate("lib-overlap/"+strings.SplitN(fail, ":", 2)[0]+"/"+strings.Join(rp.Events, ","), fail, rp)
			}
			res.Replayed = &ok
			res.Write(p)
			return
		}
		var evs []c19Event
		for _, n := range rp.Events {
			e, ok := c19EventByName(n)
			if !ok {
				t.Fatalf("unknown event %q", n)
			}
			evs = append(evs, e)
		}
		steps, _, harness := c19Run(rp.Part, evs)
		ok := c19Report(res, rp.Part, evs, steps, false)
		b, _ := json.Marshal(steps)
		fmt.Printf("replay %s %v -> %s %s\n", rp.Part, rp.Events, b, harness)
		res.Replayed = &ok
		res.Write(p)
		return
	}

	alphaA, alphaB, notes := c19Calibrate()
	for _, n := range notes {
		res.Note("%s", n)
	}
	if len(alphaA) != len(c19Events) || len(alphaB) != len(c19Events)-1 {
		res.Exhaustive = false // an event of the stated alphabet could not be used on this tree
	}
	// total history depths (first event included); 0 = search not run in this tier
	flatA, dedupA, flatB, dedupB := 3, 0, 3, 5
	if p.Thorough {
		flatA, dedupA, flatB, dedupB = 4, 6, 4, 8
	}
	res.Bounds["dev_alphabet"] = c19Names(alphaA)
	res.Bounds["lib_alphabet"] = c19Names(alphaB)
	res.Bounds["dev_flat_depth"] = flatA
	res.Bounds["dev_dedup_depth"] = dedupA
	res.Bounds["lib_flat_depth"] = flatB
	res.Bounds["lib_dedup_depth"] = dedupB
	var distinct vk.DistinctSet
	harnessFailures := 0

	// work items: a search below a fixed prefix.  Flat searches are split by
	// their first two events (the item with second event 0 also runs the
	// one-event history), deduplicated searches by their first event.
	type searchItem struct {
		part   string
		prefix []int
		dedup  bool
		depth  int // total depth
	}
	var items []searchItem
	addFlat := func(part string, n, depth int) {
		for a := 0; a < n; a++ {
			for b := 0; b < n; b++ {
				items = append(items, searchItem{part, []int{a, b}, false, depth})
			}
		}
	}
	addDedup := func(part string, n, depth int) {
		for a := 0; a < n && depth > 0; a++ {
			items = append(items, searchItem{part, []int{a}, true, depth})
		}
	}
	addFlat("B", len(alphaB), flatB)
	addFlat("A", len(alphaA), flatA)
	addDedup("B", len(alphaB), dedupB)
	addDedup("A", len(alphaA), dedupA)

	// the histories through the watcher: every edit followed by a valid edit,
	// and two longer ones
	var eHist [][]c19Event
	v2, _ := c19EventByName("v2")
	v3, _ := c19EventByName("v3")
	for _, e := range alphaA {
		next := v2
		if e.Name == "v2" {
			next = v3
		}
		eHist = append(eHist, []c19Event{e, next})
	}
	for _, h := range [][]string{{"parser-error", "semantic-error", "delete", "v3"}, {"unreadable", "lexer-error", "recreate-v1", "static-root-error"}} {
		var evs []c19Event
		ok := true
		for _, n := range h {
			e, _ := c19EventByName(n)
			found := false
			for _, a := range alphaA {
				if a.Name == n {
					found = true
				}
			}
			ok = ok && found
			evs = append(evs, e)
		}
		if ok {
			eHist = append(eHist, evs)
		}
	}
	res.Bounds["watcher_histories"] = len(eHist)

	idx := 0
	for _, h := range eHist {
		idx++
		if !p.Mine(idx) {
			continue
		}
		if p.Expired() {
			res.Exhaustive = false
			break
		}
		steps, harness := c19RunE(h, p.Deadline)
		if harness != "" {
			harnessFailures++
			res.Note("watcher history %v not run: %s", c19Names(h), harness)
			res.Exhaustive = false
			continue
		}
		res.Evaluations++
		res.Transitions += int64(len(steps))
		res.Count("watcher_histories_run", 1)
		for i, st := range steps {
			if st.Obs == "untriggered" {
				res.Count("watcher_steps_untriggered", 1)
			}
			if st.Fail != "" {
				c19Report(res, "E", h[:i+1], steps[:i+1], true)
			}
		}
		res.Sample(2, map[string]any{"part": "watcher", "history": c19Names(h), "steps": steps})
	}

	// part L: the dev server with a live-reload client connected during every edit (each reload then waits out the
	// 2 s shutdown grace of the old server, so only a few fixed histories)
	lHist := [][]string{{"v2"}, {"parser-error", "v2"}, {"v2", "semantic-error"}, {"v2", "v3"}}
	if p.Thorough {
		lHist = append(lHist, []string{"delete", "v3"}, []string{"lexer-error", "static-root-error", "v2"}, []string{"v2", "v3", "v2"}, []string{"empty", "v3"})
	}
	res.Bounds["live_client_histories"] = len(lHist)
	for _, h := range lHist {
		idx++
		if !p.Mine(idx) {
			continue
		}
		if p.Expired() {
			res.Exhaustive = false
			break
		}
		var evs []c19Event
		ok := true
		for _, n := range h {
			e, _ := c19EventByName(n)
			found := false
			for _, a := range alphaA {
				found = found || a.Name == n
			}
			ok = ok && found
			evs = append(evs, e)
		}
		if !ok {
			continue
		}
		steps, _, harness := c19Run("L", evs)
		if harness != "" {
			harnessFailures++
			res.Note("live-client history %v not run: %s", h, harness)
			res.Exhaustive = false
			continue
		}
		res.Evaluations++
		res.Transitions += int64(len(steps))
		res.Count("live_client_histories_run", 1)
		c19Report(res, "L", evs, steps, true)
		res.Sample(12, map[string]any{"part": "dev server with a live-reload client connected", "history": h, "steps": steps})
	}

	// part S: overlapping reloads in the library manager, every schedule up to the preemption bound
	sBound := 2
	if p.Thorough {
		sBound = 3
	}
	res.Bounds["overlap_preemption_bound"] = sBound
	for _, names := range [][]string{{"v2", "v3"}, {"v2", "parser-error"}, {"parser-error", "v2"}, {"v2", "v3", "v2"}} {
		idx++
		if !p.Mine(idx) {
			continue
		}
		if p.Expired() {
			res.Exhaustive = false
			break
		}
		var fail, harness string
		outcomes := vk.DistinctSet{}
		st := vrt.Explore(vrt.Config{MaxPreempt: sBound, NoAutoTimers: true, MaxSteps: 2000000, Deadline: p.Deadline}, c19Overlap(names, &fail, &harness), func(x *vrt.Exec) bool {
			f := fail
			if x.Outcome.Kind != "ok" {
				d := x.Outcome.Detail
				if i := strings.IndexByte(d, '\n'); i >= 0 {
					d = d[:i]
				}
				f = "manager-" + x.Outcome.Kind + ": " + d
			}
			if harness != "" {
				harnessFailures++
				return true
			}
			outcomes.Add(strings.SplitN(f, ":", 2)[0])
			if f != "" {
				res.Violate("lib-overlap/"+strings.SplitN(f, ":", 2)[0]+"/"+strings.Join(names, ","), f+" schedule="+vrt.FormatChoices(x.Choices),
					c19Replay{Part: "S", Events: names, Choices: x.Choices})
			}
			return true
		})
		res.Evaluations += int64(st.Execs)
		res.Transitions += int64(st.Transitions)
		res.States += int64(st.States)
		res.Count("overlap_schedules", int64(st.Execs))
		res.Sample(16, map[string]any{"part": "library manager, overlapping reloads", "edits": names, "schedules": st.Execs, "max_choice_points": st.MaxPoints, "outcomes": outcomes.Len()})
		if !st.Complete {
			res.Exhaustive = false
			res.Note("overlap scenario %v stopped by %s after %d schedules", names, st.StoppedBy, st.Execs)
		}
	}

	incomplete := map[string]int{}
	sampled := map[string]int{}
	for _, it := range items {
		idx++
		if !p.Mine(idx) {
			continue
		}
		alpha := alphaA
		if it.part == "B" {
			alpha = alphaB
		}
		tag := it.part + "_flat"
		if it.dedup {
			tag = it.part + "_dedup"
		}
		stop := false
		runOne := func(h []int) (string, bool) {
			if stop {
				return "", false
			}
			evs := make([]c19Event, len(h))
			for i, x := range h {
				evs[i] = alpha[x]
			}
			steps, canon, harness := c19Run(it.part, evs)
			res.Evaluations++
			res.Transitions++
			if harness != "" {
				harnessFailures++
				res.Note("%s history %v not run: %s", it.part, c19Names(evs), harness)
				res.Exhaustive = false
				if harnessFailures > 20 {
					stop = true
				}
				return "", false
			}
			c19Report(res, it.part, evs, steps, true)
			if len(steps) > 0 {
				if k := steps[len(steps)-1].Fail; k == "reload-never-returns" || k == "manager-hangs" {
					stop = true // a stuck goroutine may hold the manager: end this search
				}
			}
			if canon == "" {
				return "", false
			}
			distinct.Add(it.part + "|" + canon)
			if len(evs) >= 3 && sampled[it.part] < 3 && evs[1].Stage != "valid" {
				sampled[it.part]++
				res.Sample(8, map[string]any{"part": it.part, "history": c19Names(evs), "state": canon})
			}
			return canon, true
		}
		if !it.dedup && it.prefix[1] == 0 {
			if p.Expired() {
				res.Exhaustive = false
			} else {
				runOne(it.prefix[:1])
			}
		}
		st := vk.BFS(len(alpha), it.depth-len(it.prefix), it.dedup, p.Deadline, func(h []int) (string, bool) {
			return runOne(append(append([]int{}, it.prefix...), h...))
		})
		res.States += st.States
		res.Count("searches_"+tag, 1)
		if st.Emptied && it.dedup {
			res.Count("searches_with_full_reachable_set_"+it.part, 1)
		}
		if !st.Complete || stop {
			res.Exhaustive = false
			incomplete[tag]++
		}
	}
	for tag, n := range incomplete {
		res.Note("%d searches of kind %s in this shard did not reach their depth bound (time budget or stuck manager)", n, tag)
		res.Count("searches_incomplete_"+tag, int64(n))
	}
	res.Distinct = distinct.Len()

	// nothing the harness started may survive
	if c19Dir != "" {
		os.RemoveAll(c19Dir)
	}
	time.Sleep(50 * time.Millisecond)
	srvs, watchers, hubs, total := c19GoroutineCensus()
	res.Count("leaked_http_server_goroutines", int64(srvs))
	res.Count("leaked_watcher_goroutines", int64(watchers))
	res.Count("websocket_hub_goroutines_left_by_setupRoutes", int64(hubs))
	res.Count("goroutines_at_end", int64(total))
	res.Count("ports_not_released", c19PortLeaks)
	res.Write(p)
}
