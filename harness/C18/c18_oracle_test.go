package main

// C18 oracle: what `glyph fmt`, `glyph expand` and `glyph compact` must preserve.
//
// The functions driven are exactly the ones the CLI commands call:
//   fmtFile      -> formatter.CanonicalizeSource
//   expandFile   -> formatter.ExpandSource
//   compactFile  -> formatter.CompactSource
// and the two front ends of the CLI, parseSource (compact lexer + parser) and
// parseExpandedSource (expanded lexer + parser).
//
// The deciding comparisons are (a) byte equality fmt(fmt(x)) == fmt(x),
// (b) equality of the compact lexer's token sequences of x and fmt(x) after
// collapsing NEWLINE runs (and dropping leading/trailing NEWLINEs), (c) equality
// of position-stripped syntax trees of parse(x), parseExpanded(expand(x)) and
// parse(compact(expand(x))).  Everything else in this file (token diffs,
// carriage-return variants, the tolerant re-lexing of expanded text) is only
// used to give a failing case a narrow cause-based finding key.

import (
	"encoding/base64"
	"fmt"
	"reflect"
	"sort"
	"strconv"
	"strings"

	"github.com/glyphlang/glyph/pkg/ast"
	"github.com/glyphlang/glyph/pkg/formatter"
	"github.com/glyphlang/glyph/pkg/parser"
)

const c18BOM = "\ufeff"

type c18Finding struct {
	Key  string
	Desc string
}

// ---------------------------------------------------------------------------
// front ends (panic-safe wrappers around the CLI's own functions)

func c18Parse(src string) (m *ast.Module, err error) {
	defer func() {
		if r := recover(); r != nil {
			m, err = nil, fmt.Errorf("panic: %v", r)
		}
	}()
	return parseSource(src)
}

func c18ParseX(src string) (m *ast.Module, err error) {
	defer func() {
		if r := recover(); r != nil {
			m, err = nil, fmt.Errorf("panic: %v", r)
		}
	}()
	return parseExpandedSource(src)
}

func c18Lex(src string) (t []parser.Token, err error) {
	defer func() {
		if r := recover(); r != nil {
			t, err = nil, fmt.Errorf("panic: %v", r)
		}
	}()
	return parser.NewLexer(src).Tokenize()
}

func c18LexX(src string) (t []parser.Token, err error) {
	defer func() {
		if r := recover(); r != nil {
			t, err = nil, fmt.Errorf("panic: %v", r)
		}
	}()
	return parser.NewExpandedLexer(src).Tokenize()
}

func c18ParseTokens(toks []parser.Token) (m *ast.Module, err error) {
	defer func() {
		if r := recover(); r != nil {
			m, err = nil, fmt.Errorf("panic: %v", r)
		}
	}()
	return parser.NewParser(toks).Parse()
}

type c18Tool func(string) string

func c18Run(f c18Tool, src string) (out string, panicked any) {
	defer func() {
		if r := recover(); r != nil {
			panicked = r
		}
	}()
	return f(src), nil
}

// ---------------------------------------------------------------------------
// position-stripped tree dump

var c18PosType = reflect.TypeOf(ast.Pos{})

func c18Dump(m *ast.Module) string {
	var b strings.Builder
	c18DumpV(reflect.ValueOf(m), &b)
	return b.String()
}

func c18DumpV(v reflect.Value, b *strings.Builder) {
	if !v.IsValid() {
		b.WriteString("nil")
		return
	}
	switch v.Kind() {
	case reflect.Interface:
		if v.IsNil() {
			b.WriteString("nil")
			return
		}
		c18DumpV(v.Elem(), b)
	case reflect.Ptr:
		if v.IsNil() {
			b.WriteString("nil")
			return
		}
		// pointer-ness is representation, not syntax: *ast.Route and ast.Route print alike
		c18DumpV(v.Elem(), b)
	case reflect.Struct:
		t := v.Type()
		b.WriteString(t.Name())
		b.WriteByte('{')
		for i := 0; i < v.NumField(); i++ {
			if t.Field(i).Type == c18PosType {
				continue
			}
			b.WriteString(t.Field(i).Name)
			b.WriteByte(':')
			c18DumpV(v.Field(i), b)
			b.WriteByte(' ')
		}
		b.WriteByte('}')
	case reflect.Slice, reflect.Array:
		b.WriteByte('[')
		for i := 0; i < v.Len(); i++ {
			c18DumpV(v.Index(i), b)
			b.WriteByte(',')
		}
		b.WriteByte(']')
	case reflect.Map:
		keys := v.MapKeys()
		sort.Slice(keys, func(i, j int) bool { return fmt.Sprint(keys[i]) < fmt.Sprint(keys[j]) })
		b.WriteString("map[")
		for _, k := range keys {
			c18DumpV(k, b)
			b.WriteByte(':')
			c18DumpV(v.MapIndex(k), b)
			b.WriteByte(',')
		}
		b.WriteByte(']')
	case reflect.String:
		b.WriteString(strconv.Quote(v.String()))
	case reflect.Bool:
		b.WriteString(strconv.FormatBool(v.Bool()))
	case reflect.Int, reflect.Int8, reflect.Int16, reflect.Int32, reflect.Int64:
		b.WriteString(strconv.FormatInt(v.Int(), 10))
	case reflect.Uint, reflect.Uint8, reflect.Uint16, reflect.Uint32, reflect.Uint64:
		b.WriteString(strconv.FormatUint(v.Uint(), 10))
	case reflect.Float32, reflect.Float64:
		b.WriteString(strconv.FormatFloat(v.Float(), 'g', -1, 64))
	default:
		b.WriteString("?" + v.Kind().String())
	}
}

// ---------------------------------------------------------------------------
// tokens

// the documented keyword <-> symbol table of the expanded syntax
var c18KwTok = map[string]parser.TokenType{
	"route": parser.AT, "type": parser.COLON, "let": parser.DOLLAR, "return": parser.GREATER,
	"middleware": parser.PLUS, "use": parser.PERCENT, "expects": parser.LESS, "validate": parser.QUESTION,
	"handle": parser.TILDE, "cron": parser.STAR, "command": parser.BANG, "queue": parser.AMPERSAND,
	"func": parser.EQUALS,
}

// keywords the transformer rewrites at line start only / also anywhere inside a block
var c18KwStmt = map[string]bool{"let": true, "return": true, "middleware": true, "use": true, "expects": true, "validate": true}

func c18KwClass(w string) string {
	if c18KwStmt[w] {
		return "statement-keyword"
	}
	return "declaration-keyword"
}

func c18HasLiteral(t parser.TokenType) bool {
	return t == parser.IDENT || t == parser.STRING || t == parser.INTEGER || t == parser.FLOAT
}

// identity of a token for sequence comparison: type, plus the text for tokens
// that carry one (symbol tokens carry "@" or "route" depending on the lexer)
func c18TokID(t parser.Token) string {
	if c18HasLiteral(t.Type) {
		return strconv.Itoa(int(t.Type)) + ":" + t.Literal
	}
	return strconv.Itoa(int(t.Type))
}

// abstracted spelling of a token for finding keys
func c18TokAbs(t parser.Token) string {
	switch t.Type {
	case parser.IDENT:
		if _, ok := c18KwTok[t.Literal]; ok {
			return "IDENT(" + t.Literal + ")"
		}
		if t.Literal == "break" || t.Literal == "continue" {
			return "IDENT(" + t.Literal + ")"
		}
		if strings.HasPrefix(t.Literal, "--") {
			return "IDENT(--…)"
		}
		if strings.HasPrefix(t.Literal, "/") {
			return "IDENT(/path)"
		}
		return "IDENT"
	default:
		return t.Type.String()
	}
}

func c18Strip(toks []parser.Token) []parser.Token {
	if n := len(toks); n > 0 && toks[n-1].Type == parser.EOF {
		toks = toks[:n-1]
	}
	return toks
}

// layout-normal form used for fmt: NEWLINE runs collapse to one, leading and
// trailing NEWLINEs and EOF are dropped
func c18LayoutNorm(toks []parser.Token) []parser.Token {
	out := make([]parser.Token, 0, len(toks))
	for _, t := range c18Strip(toks) {
		if t.Type == parser.NEWLINE && (len(out) == 0 || out[len(out)-1].Type == parser.NEWLINE) {
			continue
		}
		out = append(out, t)
	}
	for len(out) > 0 && out[len(out)-1].Type == parser.NEWLINE {
		out = out[:len(out)-1]
	}
	return out
}

func c18SameTokens(a, b []parser.Token) bool {
	if len(a) != len(b) {
		return false
	}
	for i := range a {
		if c18TokID(a[i]) != c18TokID(b[i]) {
			return false
		}
	}
	return true
}

type c18Hunk struct {
	AI, AN int // a[AI:AI+AN] was replaced by
	BI, BN int // b[BI:BI+BN]
	Kind   string // "", "keyword", "string", "double-dash", "ident-split"
}

// c18Diff aligns the token sequence a of the original text with the sequence
// b of a rewritten text.  A left-to-right scan recognises the substitution
// shapes the two lexers / the transformer are known to produce (one hunk each,
// so that one cause gives one hunk); anything else falls back to an LCS
// alignment of the remainder.
func c18Diff(a, b []parser.Token) []c18Hunk {
	var hs []c18Hunk
	i, j := 0, 0
	for i < len(a) && j < len(b) {
		if c18TokID(a[i]) == c18TokID(b[j]) {
			i++
			j++
			continue
		}
		// an identifier spelled like a keyword became that keyword's symbol
		if a[i].Type == parser.IDENT && c18KwTok[a[i].Literal] != 0 && b[j].Type == c18KwTok[a[i].Literal] {
			h := c18Hunk{AI: i, AN: 1, BI: j, BN: 1, Kind: "keyword"}
			i++
			j++
			// consequence inside the lexer: after a symbol token a following "/seg/seg" is read as one path token
			if j < len(b) && i < len(a) && b[j].Type == parser.IDENT && strings.HasPrefix(b[j].Literal, "/") && a[i].Type == parser.SLASH {
				k, text := i, ""
				for k < len(a) && len(text) < len(b[j].Literal) {
					text += a[k].Literal
					k++
				}
				if text == b[j].Literal {
					h.AN += k - i
					h.BN++
					i = k
					j++
				}
			} else if j < len(b) && i < len(a) && a[i].Type != b[j].Type && b[j].Type == parser.IDENT && a[i].Literal == b[j].Literal {
				// ... or the next word is read as a plain identifier (the word after route names a method)
				h.AN++
				h.BN++
				i++
				j++
			}
			hs = append(hs, h)
			continue
		}
		if a[i].Type == parser.STRING && b[j].Type == parser.STRING {
			hs = append(hs, c18Hunk{AI: i, AN: 1, BI: j, BN: 1, Kind: "string"})
			i++
			j++
			continue
		}
		// "--x": two minus tokens and a word in the compact lexer, one token in the expanded lexer
		if a[i].Type == parser.MINUS && i+1 < len(a) && a[i+1].Type == parser.MINUS && strings.HasPrefix(b[j].Literal, "--") {
			n := 2
			if i+2 < len(a) && a[i+2].Literal == b[j].Literal[2:] && b[j].Literal != "--" {
				n = 3
			}
			hs = append(hs, c18Hunk{AI: i, AN: n, BI: j, BN: 1, Kind: "double-dash"})
			i += n
			j++
			continue
		}
		// an identifier cut in two in front of a keyword-spelled suffix: _let -> _ $
		if a[i].Type == parser.IDENT && b[j].Type == parser.IDENT && j+1 < len(b) && strings.HasPrefix(a[i].Literal, b[j].Literal) &&
			c18KwTok[a[i].Literal[len(b[j].Literal):]] == b[j+1].Type && c18KwTok[a[i].Literal[len(b[j].Literal):]] != 0 {
			hs = append(hs, c18Hunk{AI: i, AN: 1, BI: j, BN: 2, Kind: "ident-split"})
			i++
			j += 2
			continue
		}
		// a one-for-one substitution after which the sequences agree again
		if i+1 < len(a) && j+1 < len(b) && c18TokID(a[i+1]) == c18TokID(b[j+1]) {
			hs = append(hs, c18Hunk{AI: i, AN: 1, BI: j, BN: 1})
			i++
			j++
			continue
		}
		break
	}
	if i < len(a) || j < len(b) {
		for _, h := range c18LCS(a[i:], b[j:]) {
			h.AI += i
			h.BI += j
			hs = append(hs, h)
		}
	}
	return hs
}

// c18LCS: common prefix/suffix, then a longest-common-subsequence alignment of the middle.
func c18LCS(a, b []parser.Token) []c18Hunk {
	ida := make([]string, len(a))
	idb := make([]string, len(b))
	for i, t := range a {
		ida[i] = c18TokID(t)
	}
	for i, t := range b {
		idb[i] = c18TokID(t)
	}
	p := 0
	for p < len(ida) && p < len(idb) && ida[p] == idb[p] {
		p++
	}
	s := 0
	for s < len(ida)-p && s < len(idb)-p && ida[len(ida)-1-s] == idb[len(idb)-1-s] {
		s++
	}
	ma, mb := ida[p:len(ida)-s], idb[p:len(idb)-s]
	if len(ma) == 0 && len(mb) == 0 {
		return nil
	}
	if len(ma)*len(mb) > 400_000 || len(ma) == 0 || len(mb) == 0 {
		return []c18Hunk{{AI: p, AN: len(ma), BI: p, BN: len(mb)}}
	}
	n, m := len(ma), len(mb)
	tab := make([][]int32, n+1)
	for i := range tab {
		tab[i] = make([]int32, m+1)
	}
	for i := n - 1; i >= 0; i-- {
		for j := m - 1; j >= 0; j-- {
			if ma[i] == mb[j] {
				tab[i][j] = tab[i+1][j+1] + 1
			} else if tab[i+1][j] >= tab[i][j+1] {
				tab[i][j] = tab[i+1][j]
			} else {
				tab[i][j] = tab[i][j+1]
			}
		}
	}
	var hs []c18Hunk
	i, j := 0, 0
	cur := c18Hunk{AI: -1}
	flush := func() {
		if cur.AI >= 0 {
			hs = append(hs, cur)
			cur = c18Hunk{AI: -1}
		}
	}
	open := func() {
		if cur.AI < 0 {
			cur = c18Hunk{AI: p + i, BI: p + j}
		}
	}
	for i < n || j < m {
		switch {
		case i < n && j < m && ma[i] == mb[j]:
			flush()
			i++
			j++
		case j >= m || (i < n && tab[i+1][j] >= tab[i][j+1]):
			open()
			cur.AN++
			i++
		default:
			open()
			cur.BN++
			j++
		}
	}
	flush()
	return hs
}

// c18HunkMatters: does this hunk alone, applied to the original token
// sequence, change what the parser makes of it?  (Used to keep hunks that are
// not causes — e.g. `type Name {` read as `: Name {` — out of the findings.)
func c18HunkMatters(a, b []parser.Token, h c18Hunk, d0 string) bool {
	var t []parser.Token
	t = append(t, a[:h.AI]...)
	t = append(t, b[h.BI:h.BI+h.BN]...)
	t = append(t, a[h.AI+h.AN:]...)
	t = append(t, parser.Token{Type: parser.EOF})
	m, err := c18ParseTokens(t)
	return err != nil || c18Dump(m) != d0
}

func c18AbsSeq(toks []parser.Token) string {
	var s []string
	for i, t := range toks {
		if i == 6 {
			s = append(s, "…")
			break
		}
		s = append(s, c18TokAbs(t))
	}
	return strings.Join(s, "·")
}

func c18ShowSeq(toks []parser.Token) string {
	var s []string
	for i, t := range toks {
		if i == 8 {
			s = append(s, "…")
			break
		}
		if c18HasLiteral(t.Type) {
			s = append(s, fmt.Sprintf("%s(%q)", t.Type, t.Literal))
		} else {
			s = append(s, t.Type.String())
		}
	}
	return "[" + strings.Join(s, " ") + "]"
}

// context of token index i of the original program, for the round-trip keys
func c18TokContext(toks []parser.Token, i int) string {
	if i == 0 || toks[i-1].Type == parser.NEWLINE {
		return "line-start"
	}
	depth := 0
	for _, t := range toks[:i] {
		if t.Type == parser.LBRACE {
			depth++
		} else if t.Type == parser.RBRACE {
			depth--
		}
	}
	if depth > 0 {
		return "inside-block"
	}
	return "top-level-mid-line"
}

// ---------------------------------------------------------------------------
// a scanner with the lexers' notion of strings and comments (attribution only)

const (
	c18Code = iota
	c18Str
	c18Com
)

// c18Classes returns, for every byte offset of src, whether the lexer reads it
// as code, inside a string literal, or inside a comment.
func c18Classes(src string) []uint8 {
	cls := make([]uint8, len(src))
	i, n := 0, len(src)
	for i < n {
		ch := src[i]
		if ch == '#' || (ch == '/' && i+1 < n && src[i+1] == '/') {
			for i < n && src[i] != '\n' {
				cls[i] = c18Com
				i++
			}
			continue
		}
		if ch == '"' || ch == '\'' {
			q := ch
			cls[i] = c18Str
			i++
			for i < n && src[i] != q && src[i] != '\n' {
				if src[i] == '\\' && i+1 < n && src[i+1] != '\n' {
					cls[i] = c18Str
					i++
				}
				cls[i] = c18Str
				i++
			}
			if i < n && src[i] == q {
				cls[i] = c18Str
				i++
			}
			continue
		}
		i++
	}
	return cls
}

func c18LineStart(src string, pos int) bool {
	for i := pos - 1; i >= 0 && src[i] != '\n'; i-- {
		if src[i] != ' ' && src[i] != '\t' && src[i] != '\r' {
			return false
		}
	}
	return true
}

func c18AbsErr(err error) string {
	s := err.Error()
	switch {
	case strings.Contains(s, "panic"):
		return "panic"
	case strings.Contains(s, "unterminated string"), strings.Contains(s, "Unterminated string"):
		return "unterminated-string"
	case strings.Contains(s, "invalid character"), strings.Contains(s, "nvalid character"), strings.Contains(s, "nexpected character"):
		if i := strings.Index(s, "'"); i >= 0 && i+2 < len(s) {
			return "invalid-character(" + c18AbsChar(s[i+1]) + ")"
		}
		return "invalid-character"
	case strings.Contains(s, "escape"):
		return "bad-escape"
	}
	return "other"
}

func c18AbsChar(c byte) string {
	switch {
	case c >= 0x80:
		return "non-ascii"
	case c < 0x20 || c == 0x7f:
		return fmt.Sprintf("0x%02x", c)
	case c >= 'a' && c <= 'z', c >= 'A' && c <= 'Z':
		return "letter"
	case c >= '0' && c <= '9':
		return "digit"
	}
	return string(c)
}

func c18Q(s string) string {
	if len(s) > 700 {
		return strconv.Quote(s[:700]) + "…(" + strconv.Itoa(len(s)) + " bytes)"
	}
	return strconv.Quote(s)
}

// ---------------------------------------------------------------------------
// judging one source text

type c18Verdict struct {
	Accepted bool // the compact front end accepts src (precondition of the token / tree clauses)
	Changed  bool // fmt(src) != src
	Findings []c18Finding
}

func (v *c18Verdict) add(key, desc string) {
	for _, f := range v.Findings {
		if f.Key == key {
			return
		}
	}
	v.Findings = append(v.Findings, c18Finding{key, desc})
}

func (v *c18Verdict) has(key string) bool {
	for _, f := range v.Findings {
		if f.Key == key {
			return true
		}
	}
	return false
}

// c18Judge evaluates every clause of the property on one source text
// (idemOnly: only the idempotence clause, for texts the lexer cannot accept).
func c18Judge(src string, idemOnly bool) *c18Verdict { return c18JudgeStages(src, idemOnly, "") }

// c18JudgeStages: only = "" judges everything; "fmt", "canon", "expand" restrict
// the clauses evaluated on an accepted text (used while shrinking).
func c18JudgeStages(src string, idemOnly bool, only string) *c18Verdict {
	v := &c18Verdict{}
	f1, pan := c18Run(formatter.CanonicalizeSource, src)
	if pan != nil {
		v.add("fmt/panic", fmt.Sprintf("CanonicalizeSource panicked on %s: %v", c18Q(src), pan))
		return v
	}
	v.Changed = f1 != src
	f2, pan := c18Run(formatter.CanonicalizeSource, f1)
	if pan != nil {
		v.add("fmt/panic", fmt.Sprintf("CanonicalizeSource panicked on its own output %s: %v", c18Q(f1), pan))
		return v
	}
	if f2 != f1 {
		min := c18ShrinkIdem(src)
		m1 := formatter.CanonicalizeSource(min)
		v.add("fmt/not-idempotent/"+c18IdemShape(min),
			fmt.Sprintf("fmt is not idempotent: x=%s fmt(x)=%s fmt(fmt(x))=%s", c18Q(min), c18Q(m1), c18Q(formatter.CanonicalizeSource(m1))))
	}
	if idemOnly {
		return v
	}
	m0, err := c18Parse(src)
	if err != nil {
		return v
	}
	t0, err := c18Lex(src)
	if err != nil {
		return v
	}
	v.Accepted = true
	d0 := c18Dump(m0)
	if only == "" || only == "fmt" {
		c18JudgeFmt(v, src, f1, t0, d0)
	}
	if only == "" || only == "canon" {
		c18JudgeCanon(v, src, f1)
	}
	if only == "" || only == "expand" {
		c18JudgeExpand(v, src, t0, d0)
	}
	return v
}

func c18StageOfKey(key string) string {
	switch {
	case strings.HasPrefix(key, "fmt-canonical/"):
		return "canon"
	case strings.HasPrefix(key, "fmt/"):
		return "fmt"
	case strings.HasPrefix(key, "expand/"), strings.HasPrefix(key, "roundtrip/"):
		return "expand"
	}
	return ""
}

// --- fmt: same token sequence -------------------------------------------------

// c18FmtCheck: "" if fmt preserves the token sequence (and therefore the tree)
// of the accepted text src; otherwise the kind of failure.
func c18FmtCheck(src, f1 string, t0 []parser.Token, d0 string) (kind, detail string, hunks []c18Hunk, tf []parser.Token) {
	tf, err := c18Lex(f1)
	if err != nil {
		return "lex-error", err.Error(), nil, nil
	}
	a, b := c18LayoutNorm(t0), c18LayoutNorm(tf)
	if !c18SameTokens(a, b) {
		return "token-diff", "", c18Diff(a, b), b
	}
	m1, err := c18Parse(f1)
	if err != nil {
		return "parse-error-same-tokens", err.Error(), nil, nil
	}
	if c18Dump(m1) != d0 {
		return "tree-differs-same-tokens", "", nil, nil
	}
	return "", "", nil, nil
}

func c18BareCRs(src string) []int {
	var out []int
	for i := 0; i < len(src); i++ {
		if src[i] == '\r' && (i+1 >= len(src) || src[i+1] != '\n') {
			out = append(out, i)
		}
	}
	return out
}

func c18JudgeFmt(v *c18Verdict, src, f1 string, t0 []parser.Token, d0 string) {
	kind, detail, hunks, tf := c18FmtCheck(src, f1, t0, d0)
	if kind == "" {
		return
	}
	observed := func(x, fx string, kind, detail string, hunks []c18Hunk, a, b []parser.Token) string {
		s := fmt.Sprintf("x=%s is accepted by the parser; fmt(x)=%s ", c18Q(x), c18Q(fx))
		switch kind {
		case "lex-error":
			s += "is rejected by the lexer: " + firstLine(detail)
		case "token-diff":
			h := hunks[0]
			s += fmt.Sprintf("has a different token sequence: %s became %s", c18ShowSeq(a[h.AI:h.AI+h.AN]), c18ShowSeq(b[h.BI:h.BI+h.BN]))
		default:
			s += kind + " " + firstLine(detail)
		}
		return s
	}
	// attribution to carriage returns that are not part of a CRLF pair: the
	// lexer reads them as blanks (and as string / comment content), fmt turns
	// them into line breaks
	if crs := c18BareCRs(src); len(crs) > 0 {
		cls := c18Classes(src)
		blank := []byte(src)
		for _, i := range crs {
			blank[i] = ' '
		}
		base := string(blank)
		if c18FmtOK(base) {
			// which kinds of position matter?  One variant per kind (all returns of that kind restored),
			// then the first single return of that kind that fails alone, as the example.
			found := false
			names := [...]string{"between-tokens", "inside-string", "inside-comment"}
			for kindOf := uint8(0); kindOf < 3; kindOf++ {
				grp := []byte(base)
				n := 0
				for _, i := range crs {
					if cls[i] == kindOf {
						grp[i] = '\r'
						n++
					}
				}
				if n == 0 || c18FmtOK(string(grp)) {
					continue
				}
				found = true
				key := "fmt/bare-CR/" + names[kindOf]
				single := false
				for _, i := range crs {
					if cls[i] != kindOf {
						continue
					}
					one := []byte(base)
					one[i] = '\r'
					x := string(one)
					k, d, hs, b, a := c18FmtKind(x)
					if k == "" {
						continue
					}
					single = true
					v.add(key, "a carriage return not followed by LF ("+names[kindOf]+") is a blank to the lexer but a line break to fmt: "+
						observed(x, formatter.CanonicalizeSource(x), k, d, hs, a, b))
					break
				}
				if !single {
					x := string(grp)
					k, d, hs, b, a := c18FmtKind(x)
					v.add(key+"/only-together", "carriage returns not followed by LF ("+names[kindOf]+"): "+observed(x, formatter.CanonicalizeSource(x), k, d, hs, a, b))
				}
			}
			if !found {
				v.add("fmt/bare-CR/combination", observed(src, f1, kind, detail, hunks, c18LayoutNorm(t0), tf))
			}
			return
		}
	}
	a := c18LayoutNorm(t0)
	switch kind {
	case "lex-error":
		v.add("fmt/output-rejected-by-lexer/"+c18AbsErrS(detail), observed(src, f1, kind, detail, hunks, a, tf))
	case "token-diff":
		for _, h := range hunks {
			v.add("fmt/token-diff/"+c18AbsSeq(a[h.AI:h.AI+h.AN])+"=>"+c18AbsSeq(tf[h.BI:h.BI+h.BN]),
				observed(src, f1, kind, detail, []c18Hunk{h}, a, tf))
		}
	default:
		v.add("fmt/"+kind, observed(src, f1, kind, detail, hunks, a, tf))
	}
}

func c18AbsErrS(s string) string { return c18AbsErr(fmt.Errorf("%s", s)) }

func firstLine(s string) string {
	if i := strings.IndexByte(s, '\n'); i >= 0 {
		s = s[:i]
	}
	if len(s) > 200 {
		s = s[:200] + "…"
	}
	return s
}

// c18FmtKind judges fmt on a variant text (which must itself be accepted).
func c18FmtKind(x string) (kind, detail string, hunks []c18Hunk, tf, a []parser.Token) {
	m, err := c18Parse(x)
	if err != nil {
		return "", "", nil, nil, nil // variant not accepted: not judged
	}
	t, err := c18Lex(x)
	if err != nil {
		return "", "", nil, nil, nil
	}
	kind, detail, hunks, tf = c18FmtCheck(x, formatter.CanonicalizeSource(x), t, c18Dump(m))
	return kind, detail, hunks, tf, c18LayoutNorm(t)
}

func c18FmtOK(x string) bool {
	k, _, _, _, _ := c18FmtKind(x)
	return k == ""
}

// --- fmt: idempotence keys ------------------------------------------------------

func c18NotIdem(x string) bool {
	f1, p := c18Run(formatter.CanonicalizeSource, x)
	if p != nil {
		return false
	}
	f2, p := c18Run(formatter.CanonicalizeSource, f1)
	return p == nil && f1 != f2
}

func c18Runes(s string) []string {
	var out []string
	for len(s) > 0 {
		if strings.HasPrefix(s, c18BOM) {
			out = append(out, c18BOM)
			s = s[len(c18BOM):]
			continue
		}
		out = append(out, s[:1])
		s = s[1:]
	}
	return out
}

func c18ShrinkIdem(src string) string {
	p := c18DDMin(c18Runes(src), func(ps []string) bool { return c18NotIdem(strings.Join(ps, "")) }, 4000)
	return strings.Join(p, "")
}

func c18IdemShape(min string) string {
	var b strings.Builder
	for i, r := range c18Runes(min) {
		if i == 12 {
			b.WriteString("…")
			break
		}
		switch {
		case r == c18BOM:
			b.WriteString("BOM")
		case r == " " || r == "\t" || r == "\n" || r == "\r" || r == "\v" || r == "\f":
			b.WriteString("_")
		case r == "{" || r == "[" || r == "(":
			b.WriteString("(")
		case r == "}" || r == "]" || r == ")":
			b.WriteString(")")
		case r == "\"" || r == "'":
			b.WriteString("q")
		case r == "#" || r == "/" || r == "\\":
			b.WriteString(r)
		case r[0] >= 0x80:
			b.WriteString("x80")
		default:
			b.WriteString("a")
		}
	}
	return b.String()
}

// c18DDMin: delta debugging over a list of pieces; returns a 1-minimal sublist
// for which test still holds (test(pieces) must hold initially).
func c18DDMin(pieces []string, test func([]string) bool, maxTests int) []string {
	tests := 0
	n := 2
	for len(pieces) >= 2 {
		chunk := (len(pieces) + n - 1) / n
		reduced := false
		for start := 0; start < len(pieces); start += chunk {
			end := start + chunk
			if end > len(pieces) {
				end = len(pieces)
			}
			cand := append(append([]string{}, pieces[:start]...), pieces[end:]...)
			tests++
			if tests > maxTests {
				return pieces
			}
			if len(cand) > 0 && test(cand) {
				pieces = cand
				if n > 2 {
					n--
				}
				reduced = true
				break
			}
		}
		if !reduced {
			if chunk == 1 {
				break
			}
			n *= 2
			if n > len(pieces) {
				n = len(pieces)
			}
		}
	}
	return pieces
}

// --- fmt: the documented canonical form (auxiliary, see notes.md) -------------------

// c18JudgeCanon checks the output of fmt on an accepted program against the
// five documented canonical rules (docs/CLI.md, canonical.go), with the bracket
// depth taken from the real lexer's tokens of the output.
func c18JudgeCanon(v *c18Verdict, src, f1 string) {
	if f1 == "" {
		return
	}
	bad := func(rule, what string) {
		v.add("fmt-canonical/"+rule, fmt.Sprintf("documented canonical rule %s broken: %s; x=%s fmt(x)=%s", rule, what, c18Q(src), c18Q(f1)))
	}
	if strings.Contains(f1, "\r") {
		if len(c18BareCRs(src)) == 0 { // a bare CR inside a string is the bare-CR finding, not this one
			bad("1-LF-line-endings", "output contains a carriage return")
		}
		return
	}
	if !strings.HasSuffix(f1, "\n") || strings.HasSuffix(f1, "\n\n") {
		bad("5-one-trailing-newline", "output does not end with exactly one newline")
	}
	if strings.HasPrefix(f1, "\n") {
		bad("4-blank-lines", "output starts with a blank line")
	}
	if strings.Contains(f1, "\n\n\n") {
		bad("4-blank-lines", "two consecutive blank lines")
	}
	lines := strings.Split(strings.TrimSuffix(f1, "\n"), "\n")
	for _, l := range lines {
		if l != strings.TrimRight(l, " \t") {
			bad("2-trailing-whitespace", "line "+strconv.Quote(l)+" ends with white space")
			break
		}
	}
	toks, err := c18Lex(f1)
	if err != nil {
		return
	}
	// per line: net bracket change and number of leading closers
	type li struct{ opens, closes, lead int }
	info := make([]li, len(lines)+2)
	seenOther := make([]bool, len(lines)+2)
	for _, t := range toks {
		if t.Line < 1 || t.Line > len(lines) {
			continue
		}
		switch t.Type {
		case parser.LBRACE, parser.LBRACKET, parser.LPAREN:
			info[t.Line].opens++
			seenOther[t.Line] = true
		case parser.RBRACE, parser.RBRACKET, parser.RPAREN:
			info[t.Line].closes++
			if !seenOther[t.Line] {
				info[t.Line].lead++
			}
		case parser.NEWLINE, parser.EOF:
		default:
			seenOther[t.Line] = true
		}
	}
	depth := 0
	for i, l := range lines {
		ln := i + 1
		if l == "" {
			continue
		}
		if info[ln].lead <= 1 {
			want := depth - info[ln].lead
			if want < 0 {
				return // unbalanced program: depth is not defined by the rules
			}
			got := len(l) - len(strings.TrimLeft(l, " "))
			if got != 2*want || strings.HasPrefix(l[got:], "\t") {
				bad("3-indentation", fmt.Sprintf("line %d %s is indented by %d, bracket depth is %d", ln, strconv.Quote(l), got, want))
				return
			}
		}
		depth += info[ln].opens - info[ln].closes
		if depth < 0 {
			return
		}
	}
}

// --- expand / compact ---------------------------------------------------------------

func c18JudgeExpand(v *c18Verdict, src string, t0 []parser.Token, d0 string) {
	ex, pan := c18Run(formatter.ExpandSource, src)
	if pan != nil {
		v.add("expand/panic", fmt.Sprintf("ExpandSource panicked on %s: %v", c18Q(src), pan))
		return
	}
	// (1) the expanded text parses to the same tree
	mx, err := c18ParseX(ex)
	if err != nil || c18Dump(mx) != d0 {
		what := "parses to a different tree"
		if err != nil {
			what = "is rejected: " + firstLine(err.Error())
		}
		c18AttributeExpand(v, src, ex, t0, d0, what)
	}
	// (2) expand then compact parses to the same tree
	rt, pan := c18Run(formatter.CompactSource, ex)
	if pan != nil {
		v.add("roundtrip/panic", fmt.Sprintf("CompactSource panicked on %s: %v", c18Q(ex), pan))
		return
	}
	mr, err := c18Parse(rt)
	if err != nil || c18Dump(mr) != d0 {
		what := "parses to a different tree"
		if err != nil {
			what = "is rejected: " + firstLine(err.Error())
		}
		c18AttributeRoundTrip(v, src, ex, rt, t0, d0, what)
	}
}

var c18SymKw = map[byte]string{'@': "route", '$': "let", '%': "use", '~': "handle"}

// c18SymUnknown: is the compact symbol c rejected by the expanded lexer? (probed on the real lexer)
var c18SymUnknownMemo = map[byte]bool{}

func c18SymUnknown(c byte) bool {
	if u, ok := c18SymUnknownMemo[c]; ok {
		return u
	}
	_, err := c18LexX("x " + string(c) + " y")
	c18SymUnknownMemo[c] = err != nil
	return err != nil
}

func c18AttributeExpand(v *c18Verdict, src, ex string, t0 []parser.Token, d0, what string) {
	pre := fmt.Sprintf("x=%s is accepted; expand(x)=%s %s under the expanded front end", c18Q(src), c18Q(ex), what)
	n0 := len(v.Findings)
	// symbols the expanded lexer has no token for, left in the expanded text
	cls := c18Classes(ex)
	var patched strings.Builder
	for i := 0; i < len(ex); i++ {
		kw, isSym := c18SymKw[ex[i]]
		if !isSym || cls[i] != c18Code || !c18SymUnknown(ex[i]) {
			patched.WriteByte(ex[i])
			continue
		}
		where := "mid-line"
		if c18LineStart(ex, i) {
			where = "line-start"
		}
		v.add("expand/symbol-unknown-to-expanded-lexer/"+string(ex[i])+"/"+where,
			fmt.Sprintf("expand leaves '%c' (%s) in place and the expanded lexer has no token for it; %s", ex[i], where, pre))
		patched.WriteString(" " + kw + " ")
	}
	// continue with those symbols spelled as their keywords, to see further causes
	t1, err := c18LexX(patched.String())
	if err != nil {
		v.add("expand/expanded-lexer-rejects/"+c18AbsErr(err), pre)
		return
	}
	a, b := c18Strip(t0), c18Strip(t1)
	srcLines := strings.Split(src, "\n")
	for _, h := range c18Diff(a, b) {
		if !c18HunkMatters(a, b, h, d0) {
			continue
		}
		ha, hb := a[h.AI:h.AI+h.AN], b[h.BI:h.BI+h.BN]
		desc := fmt.Sprintf("compact tokens %s correspond to expanded tokens %s; %s", c18ShowSeq(ha), c18ShowSeq(hb), pre)
		switch h.Kind {
		case "keyword":
			w := ha[0].Literal
			switch {
			case w == "route" && h.AI > 0 && a[h.AI-1].Type == parser.AT:
				v.add("expand/at-route-long-form", "the long route form '@ route /path' expands to 'route route /path' and the second 'route' is lexed as '@'; "+desc)
			case h.AI > 0 && a[h.AI-1].Type == parser.AT:
				v.add("expand/at-directive-long-form", "a long-form directive '@ "+w+" …' expands to 'route "+w+" …' and '"+w+"' is lexed as its symbol; "+desc)
			default:
				v.add("expand/keyword-named-identifier/"+c18KwClass(w), "an identifier spelled like the expanded keyword '"+w+"' is lexed as the symbol token by the expanded lexer; "+desc)
			}
		case "string":
			r := c18RawString(srcLines, ha[0])
			esc := "?"
			for i := 0; i+1 < len(r); i++ {
				if r[i] == '\\' {
					if strings.IndexByte("ntr\"'\\", r[i+1]) < 0 {
						esc = string(r[i+1])
						break
					}
					i++
				}
			}
			v.add("expand/string-escape/\\"+esc, fmt.Sprintf("the string literal %s has the value %q under the compact lexer and %q under the expanded lexer; %s", r, ha[0].Literal, hb[0].Literal, pre))
		case "double-dash":
			third := "nothing"
			if len(ha) == 3 {
				third = c18TokAbs(ha[2])
				if ha[2].Type == parser.IDENT && c18KwTok[ha[2].Literal] != 0 {
					third = "IDENT(keyword)"
				}
			}
			v.add("expand/double-dash-is-one-token/"+third, "the expanded lexer reads '--' plus the following word as one token, the compact lexer as two '-' tokens and a word; "+desc)
		default:
			v.add("expand/token-diff/"+c18AbsSeq(ha)+"=>"+c18AbsSeq(hb), desc)
		}
	}
	if len(v.Findings) == n0 {
		v.add("expand/unattributed", pre)
	}
}

// source text of a string token (line / column are 1-based byte positions)
func c18RawString(lines []string, t parser.Token) string {
	if t.Line < 1 || t.Line > len(lines) || t.Column < 1 || t.Column > len(lines[t.Line-1]) {
		return ""
	}
	s := lines[t.Line-1][t.Column-1:]
	q := s[0]
	for i := 1; i < len(s); i++ {
		if s[i] == '\\' {
			i++
		} else if s[i] == q {
			return s[:i+1]
		}
	}
	return s
}

func c18AttributeRoundTrip(v *c18Verdict, src, ex, rt string, t0 []parser.Token, d0, what string) {
	pre := fmt.Sprintf("x=%s is accepted; compact(expand(x))=%s %s", c18Q(src), c18Q(rt), what)
	n0 := len(v.Findings)
	t2, err := c18Lex(rt)
	if err != nil {
		v.add("roundtrip/lexer-rejects/"+c18AbsErr(err), pre)
		return
	}
	a, b := c18Strip(t0), c18Strip(t2)
	for _, h := range c18Diff(a, b) {
		if !c18HunkMatters(a, b, h, d0) {
			continue
		}
		ha, hb := a[h.AI:h.AI+h.AN], b[h.BI:h.BI+h.BN]
		desc := fmt.Sprintf("tokens %s became %s; %s", c18ShowSeq(ha), c18ShowSeq(hb), pre)
		switch h.Kind {
		case "keyword":
			w := ha[0].Literal
			ctx := c18TokContext(a, h.AI)
			v.add("roundtrip/keyword-named-identifier/"+c18KwClass(w)+"/"+ctx, "compact rewrites the identifier '"+w+"' ("+ctx+") to its symbol; "+desc)
		case "ident-split":
			w := ha[0].Literal[len(hb[0].Literal):]
			v.add("roundtrip/identifier-split-before-keyword/"+c18KwClass(w)+"/"+c18TokContext(a, h.AI),
				"compact does not treat '_' as the start of a word: the identifier '"+ha[0].Literal+"' is cut before '"+w+"', which is rewritten to its symbol; "+desc)
		default:
			v.add("roundtrip/token-diff/"+c18AbsSeq(ha)+"=>"+c18AbsSeq(hb), desc)
		}
	}
	if len(v.Findings) == n0 {
		v.add("roundtrip/unattributed", pre)
	}
}

// ---------------------------------------------------------------------------
// replay payload

type c18Replay struct {
	Key    string `json:"key"`
	Origin string `json:"origin"`      // where the case came from (layer/style or file)
	Src    string `json:"source_text"` // readable copy (lossy for invalid UTF-8)
	B64    string `json:"source_base64"`
	Idem   bool   `json:"idempotence_only"`
}

func c18MkReplay(key, origin, src string, idem bool) c18Replay {
	return c18Replay{Key: key, Origin: origin, Src: src, B64: base64.StdEncoding.EncodeToString([]byte(src)), Idem: idem}
}
