package main

// C18 corpus: a bounded-exhaustive generator of GlyphLang programs that covers
// every production of pkg/parser (declarations, statements, expressions, types,
// patterns), rendered in several layout styles, plus lexical corners.
//
// A program is a list of layout-neutral nodes (a line, or a head + bracketed
// children + optional continuation); the renderer decides brace placement,
// indentation, line ends, blank lines, trailing blanks, comments, BOM.

import (
	"fmt"
	"os"
	"path/filepath"
	"sort"
	"strings"
)

type c18N struct {
	Text  string // leaf: the line; block: text before the opening bracket
	Open  string // "" for a leaf
	Close string
	Sep   string // "," between children of literal blocks
	Kids  []*c18N
	Next  *c18N  // continuation on the closing line: } else {
	After string // text after the closing bracket
	Cmt   string // comment at the end of the (first) line of this node
	CmtZ  string // comment at the end of the closing line
}

func cL(t string) *c18N { return &c18N{Text: t} }

func cB(head string, kids ...*c18N) *c18N {
	return &c18N{Text: head, Open: "{", Close: "}", Kids: kids}
}

func cLit(head, open, cls string, kids ...*c18N) *c18N {
	return &c18N{Text: head, Open: open, Close: cls, Sep: ",", Kids: kids}
}

func (n *c18N) els(head string, kids ...*c18N) *c18N {
	last := n
	for last.Next != nil {
		last = last.Next
	}
	last.Next = cB(head, kids...)
	return n
}

func (n *c18N) after(s string) *c18N { n.After = s; return n }
func (n *c18N) cmt(c string) *c18N   { n.Cmt = c; return n }
func (n *c18N) cmtZ(c string) *c18N  { n.CmtZ = c; return n }

func cLc(t, c string) *c18N { return &c18N{Text: t, Cmt: c} }

func cLs(lines ...string) []*c18N {
	var out []*c18N
	for _, l := range lines {
		out = append(out, cL(l))
	}
	return out
}

// ---------------------------------------------------------------------------
// layout styles

type c18Style struct {
	Name     string
	Indent   string
	Allman   bool // opening bracket on its own line
	OneLine  bool // every block on one line
	OneFile  bool // the whole file on one line
	EOL      string
	Trail    []string // trailing white space, rotating per line
	Blank    []int    // blank lines inserted after each line, rotating
	Lead     int      // blank lines at the start
	BOM      bool
	Final    int  // line ends after the last line
	Comments bool // comment lines and trailing comments, rotating
}

var c18Styles = []c18Style{
	{Name: "canonical", Indent: "  ", EOL: "\n", Final: 1},
	{Name: "one-line-blocks", Indent: "  ", OneLine: true, EOL: "\n", Final: 1},
	{Name: "one-line-file", OneLine: true, OneFile: true, EOL: "\n", Final: 0},
	{Name: "allman-4", Indent: "    ", Allman: true, EOL: "\n", Final: 1},
	{Name: "crlf-tabs-trailing-blanks", Indent: "\t", EOL: "\r\n", Trail: []string{"", "  ", "\t", " \t "}, Blank: []int{0, 2, 0, 3}, Lead: 2, Final: 3},
	{Name: "bom", Indent: "  ", EOL: "\n", BOM: true, Final: 1},
	{Name: "cr-only", Indent: "  ", EOL: "\r", Final: 1},
	{Name: "comments-flat", Indent: "", EOL: "\n", Comments: true, Final: 0},
	{Name: "comments-indented", Indent: "   ", EOL: "\n", Comments: true, Trail: []string{"", " "}, Final: 1},
}

var c18TrailComments = []string{" # c", "", " // it's", "  # {", "", " // } \"q", " # @ $ % ~ route let return", ""}
var c18LineComments = []string{"# note: don't {", "// $ x = 1", "#", "# ) ] }"}

type c18Rend struct {
	st    c18Style
	lines []string
	cmts  []string // comment to put at the end of the line (after separators)
}

func (r *c18Rend) emit(line, cmt string) {
	r.lines = append(r.lines, line)
	r.cmts = append(r.cmts, cmt)
}

// first comment of an inlined subtree (anything after it would be inside the comment anyway)
func (n *c18N) firstCmt() string {
	if n == nil {
		return ""
	}
	if n.Cmt != "" {
		return n.Cmt
	}
	for _, k := range n.Kids {
		if c := k.firstCmt(); c != "" {
			return c
		}
	}
	if n.CmtZ != "" {
		return n.CmtZ
	}
	return n.Next.firstCmt()
}

func joinHead(head, open string) string {
	if head == "" {
		return open
	}
	return head + " " + open
}

func (n *c18N) inline() string {
	if n.Open == "" {
		return n.Text
	}
	var parts []string
	for _, k := range n.Kids {
		parts = append(parts, k.inline())
	}
	s := joinHead(n.Text, n.Open)
	if len(parts) > 0 {
		s += " " + strings.Join(parts, n.Sep+" ") + " "
	} else if n.Open == "{" && n.Sep == "" {
		s += " "
	}
	s += n.Close + n.After
	if n.Next != nil {
		s += " " + n.Next.inline()
	}
	return s
}

func (r *c18Rend) node(n *c18N, depth int) {
	ind := strings.Repeat(r.st.Indent, depth)
	if n.Open == "" {
		r.emit(ind+n.Text, n.Cmt)
		return
	}
	if r.st.OneLine {
		r.emit(ind+n.inline(), n.firstCmt())
		return
	}
	prefix := ""
	for cur := n; cur != nil; cur = cur.Next {
		if r.st.Allman && cur.Sep == "" {
			if prefix != "" {
				r.emit(ind+strings.TrimSpace(prefix), "")
			}
			if cur.Text != "" {
				r.emit(ind+cur.Text, "")
			}
			r.emit(ind+cur.Open, cur.Cmt)
		} else {
			r.emit(ind+prefix+joinHead(cur.Text, cur.Open), cur.Cmt)
		}
		for i, k := range cur.Kids {
			r.node(k, depth+1)
			if cur.Sep != "" && i < len(cur.Kids)-1 {
				r.lines[len(r.lines)-1] += cur.Sep
			}
		}
		if cur.Next == nil {
			r.emit(ind+cur.Close+cur.After, cur.CmtZ)
		} else {
			prefix = cur.Close + cur.After + " "
		}
	}
}

func c18Render(items []*c18N, st c18Style) string {
	r := &c18Rend{st: st}
	for _, it := range items {
		r.node(it, 0)
	}
	lines := r.lines
	if st.OneFile {
		first := ""
		for _, c := range r.cmts {
			if c != "" {
				first = c
				break
			}
		}
		var code []string
		for i, l := range lines {
			if strings.TrimSpace(l) != "" || r.cmts[i] == "" {
				code = append(code, l)
			}
		}
		lines = []string{strings.Join(code, " ")}
		r.cmts = []string{first}
	}
	for i := range lines {
		if r.cmts[i] != "" {
			if strings.TrimSpace(lines[i]) == "" {
				lines[i] += r.cmts[i]
			} else {
				lines[i] += " " + r.cmts[i]
			}
		}
	}
	var out []string
	for i := 0; i < st.Lead; i++ {
		out = append(out, "")
	}
	for i, l := range lines {
		if st.Comments {
			if i%3 == 1 {
				ind := l[:len(l)-len(strings.TrimLeft(l, " \t"))]
				out = append(out, ind+c18LineComments[(i/3)%len(c18LineComments)])
			}
			l += c18TrailComments[i%len(c18TrailComments)]
		}
		if len(st.Trail) > 0 {
			l += st.Trail[i%len(st.Trail)]
		}
		out = append(out, l)
		if len(st.Blank) > 0 && i < len(lines)-1 {
			for k := 0; k < st.Blank[i%len(st.Blank)]; k++ {
				if len(st.Trail) > 0 {
					out = append(out, st.Trail[(i+k)%len(st.Trail)])
				} else {
					out = append(out, "")
				}
			}
		}
	}
	s := strings.Join(out, st.EOL) + strings.Repeat(st.EOL, st.Final)
	if st.BOM {
		s = "\ufeff" + s
	}
	return s
}

// ---------------------------------------------------------------------------
// programs

type c18Prog struct {
	Layer string
	Items []*c18N
}

func cRoute(body ...*c18N) *c18N { return cB("@ GET /t/:id", body...) }

var c18Ops = []string{"+", "-", "*", "/", "%", "==", "!=", "<", "<=", ">", ">=", "&&", "||"}

func c18Atoms() []string {
	return []string{"0", "42", "1.5", `"a"`, `'b'`, "true", "false", "null", "x", "x.f", "x.f.g", "x[0]", "x[0][1]", "x.f[0]", "x.f[0].g",
		"f()", "f(1, x)", "o.m(1)", "x.f.m(2)", "[1, 2]", "[]", "{a: 1}", "{}", "{:a = 1}", `{a: 1, b: [2, "s"], c: {d: null}}`, "(1 + 2)", "((x))",
		"-x", "!x", "- -x", "!!x", "-1", "- 1.5", "await f()", "await o.m(x)", "x |> f", "x |> f |> g(1)", "f(g(x), [1], {k: 2})", "x[i + 1]", "x[o.k]"}
}

// simple (single-line) statements of a route / function body
func c18Simple() []string {
	return []string{
		"$ x = 1", "$ x: int = 1", "$ x: str", "$ x: [int]? = null", "$ a[0] = 1", "$ o.f = 1", "$ o.f.g = 2", "$ o.f[0] = 1", "$ a[0].b = 1", "$ a[i][j] = x",
		"> x", "> x :: 201", "> {a: 1} :: 404", "> [x, 1]", `> "s"`, "let y = 2", "let y: int = 2", "return y", "x = x + 1", "a[0] = 2", "a[0][1] = 2", "a[0].f = 3",
		"f(x)", "o.m(x)", "o.f", "o.f.g(1, 2)", `? x > 0 :: 400 "bad"`, "? x :: 404", "? valid(x)", "? o.check(x, 1)", "assert(x == 1)", `assert(x, "m")`, "yield x",
		"$ z = x > 1", "$ z = x % 2", "$ z = -x", "$ z = !x", "$ z = await f(x)", "$ p = x |> f",
	}
}

func c18LoopOnly() []string { return []string{"break", "continue"} }

// block statement templates: given a body, build the statement node(s)
func c18Blocks() []func(body []*c18N) *c18N {
	return []func(body []*c18N) *c18N{
		func(b []*c18N) *c18N { return cB("if x > 1", b...) },
		func(b []*c18N) *c18N { return cB("if x", b...).els("else", b...) },
		func(b []*c18N) *c18N { return cB("if x == 1", b...).els("else if x == 2", b...).els("else", cL("> null")) },
		func(b []*c18N) *c18N { return cB("while x < 3", b...) },
		func(b []*c18N) *c18N { return cB("for v in xs", b...) },
		func(b []*c18N) *c18N { return cB("for k, v in o", b...) },
		func(b []*c18N) *c18N {
			return cB("switch x", cB("case 1", b...), cB(`case "a"`, b...), cB("default", b...))
		},
		func(b []*c18N) *c18N { return cB("$ fut = async", b...) },
	}
}

// statements that are themselves multi-line literals / match expressions
func c18LiteralBlocks() []*c18N {
	return []*c18N{
		cLit("$ o =", "{", "}", cLs("a: 1", `b: "s"`, "c: [1, 2]")...),
		cLit("$ o =", "{", "}", cLs(":a = 1", ":b = x")...),
		cLit("$ a =", "[", "]", cLs("1", "-2", "!x", "(3)", `"s"`, "f(x)")...),
		cLit("$ n =", "{", "}", cL("k: 1"), cLit("inner:", "{", "}", cLs("d: 2")...), cLit("list:", "[", "]", cLs("1", "2")...)),
		cLit(">", "{", "}", cLs("ok: true", "data: x")...),
		cLit(">", "{", "}", cLs("ok: false")...).after(" :: 500"),
		cLit("$ r = match x", "{", "}", cLs(`1 => "one"`, `"a" => "str"`, "true => 1", "null => 0", "1.5 => 2", "n when n > 1 => n", "{a, b: c} => a", "{p: {q}} => q", "[h, ...t] => h", "[] => 0", "[a, b] => a + b", `_ => "z"`)...),
		cLit("> match x", "{", "}", cLs("1 => x", "_ => 0")...),
	}
}

func c18Types() []string {
	return []string{"int", "str", "string", "bool", "float", "User", "m.User", "[int]", "int[]", "[[str]]", "List<int>", "Map<str, int>", "Map[str, int]", "List<List<int>>",
		"int?", "[int]?", "User | Error", "int | str | bool", "(int) -> str", "(int, str) -> bool", "() -> int", "any", "object", "timestamp", "Result<User, Error>"}
}

func c18RouteLines() []string {
	return []string{"+ auth(jwt)", "+ auth(jwt, role: admin)", "+ ratelimit(100/min)", `+ ratelimit("5/sec")`, "+ cors(all)", "+ logging", "% db: Database", "% cache: Redis", "< input: CreateUser", "< input: [Item]",
		"? page: int = 1", "? q: str!", "? tags: str[]", "? limit: int = 10 + 5"}
}

// top-level declarations, one of every form the parser accepts
func c18Items() []*c18N {
	body := cLs("$ x = 1", "> x")
	return []*c18N{
		cB(": User", cLs("id: int!", "name: str", "tags: [str]", "age: int?", "role: str = \"user\"", "score: float = 1.5", "ok: bool = true", "opt: int? = null", "u: User | Error")...),
		cB(": Account", cLs("email: str! @email", "name: str! @minLen(2) @maxLen(50)", "age: int @range(0, 150)", `kind: str @oneOf(["a", "b"])`, `code: str @pattern("[A-Z]+") = "A"`, "ratio: float @min(0.5)")...),
		cB(": Box<T>", cL("value: T"), cL("items: [T]"), cB("get() -> T", cL("> value")), cB("set(v: T, n: int = 1)", cL("$ value = v"), cL("> null"))),
		cB(": Pair<K: Comparable, V extends Object> impl Printable, Eq", cLs("key: K!", "val: V")...),
		cB("type Legacy", cLs("a: int", "b: Map<str, [int]>")...),
		cB("trait Printable", cLs("print() -> str", "show(indent: int, full: bool) -> str")...),
		cB("trait Container<T>", cLs("add(item: T)", "get(i: int) -> T")...),
		cB("provider Mailer", cLs("send(to: str!, body: str) -> bool", "count() -> int")...),
		cB("contract UserAPI", cLs("@ GET /users -> [User]", "@ GET /users/:id -> User | Error", "@ POST /users -> User", "@ DELETE /users/:id", "@ PATCH /a/b -> str", "@ PUT /a -> int")...),
		cL(`import "./utils"`), cL(`import "./models" as m`), cL(`from "./utils" import { a, b as c }`), cLit(`from "./x" import`, "{", "}", cLs("one", "two as t")...), cL(`module "app/main"`),
		cL("const MAX = 100"), cL("const PI: float = 3.14159"), cL(`const NAME: str = "n" + "m"`), cL("const NEG = -1"),
		cB("@ GET /users", body...), cB("@ POST /users/:id/posts -> Post", body...), cB("@ PUT /a-b/c-d", body...), cB("@ DELETE /x", body...), cB("@ PATCH /x -> [str]", body...),
		cB("@ route /plain", body...), cB("@ route /m [POST]", body...), cB("@ route /typed [put] -> User", body...), cB("@ get /lower", body...), cB("@ GET /", body...), cB("@ GET /api/async", body...), cB("@ GET /for/:import", body...),
		cB("@ SSE /events", cB("for i in xs", cL("yield i"))),
		cB("@ ws /chat", cB("on connect", cL("ws.join(\"lobby\")")), cB("on message", cL("ws.broadcast(input)"), cL("$ n = 1")), cB("on disconnect", cL("ws.leave(\"lobby\")")), cB("on error", cL("log(input)"))),
		cB("@ websocket /ws/:room", cB("on message", cL("ws.send(input)"))),
		cL(`@ static /assets "./public"`), cL(`@ static /a/b 'dist'`),
		cB("@ rpc UserService", cLs("GetUser(GetUserRequest) -> User", "List(stream Req) -> stream User", "Watch(Req) -> stream Event", "Push(stream Req) -> Ack")...),
		cB("@ rpc GetUser(req: GetUserRequest, n: int!) -> User", cL("+ auth(jwt)"), cL("% db: Database"), cL("> db.users.get(req.id)")),
		cB("@ grpc Tail(req: Req) -> stream Line", cL("> req")),
		cB("@ query user(id: int!) -> User", cL("+ auth(jwt)"), cL("% db: Database"), cL("> db.users.get(id)")),
		cB("@ mutation createUser(name: str, age: int) -> User", cL("> {name: name}")),
		cB("@ subscription ticks -> int", cL("> 1")),
		cB("@ command greet name: str!", cL("> name")), cB(`@ cron "0 * * * *" hourly`, cL("$ x = 1")), cB(`@ event "user.created"`, cL("$ x = event")), cB(`@ queue "jobs"`, cL("$ x = message")),
		cB("@ cmd c2", cL("> 1")), cB(`@ schedule "* * * * *"`, cL("$ x = 1")), cB(`@ on "e"`, cL("$ x = 1")), cB(`@ worker "w"`, cL("$ x = 1")),
		cB("! hello name: str!", cL(`> "hi " + name`)),
		cB(`! deploy "Deploy the app" env: str! --force: bool = false --n: int = 1 -v: bool -> str`, cL("> env")),
		cB("! calc a: int = 1 + 2 b: int = -1", cL("> a - b")),
		cB("! add(a: int, b: int = 2): int", cL("> a + b")), cB("! noargs()", cL("> 1")), cB("! arrow(a: str!) -> str", cL("> a")),
		cB("! map<T, U>(arr: [T], fn: (T) -> U): [U]", cL("> arr")), cB("! id<T: Comparable>(x: T) -> T", cL("> x")),
		cB(`* "0 0 * * *" nightly`, cL("% db: Database"), cL("+ retries(3)"), cL("$ n = db.cleanup()"), cB("if n > 0", cL("$ m = n"))),
		cB(`* "*/5 * * * *" poll tz "UTC"`, cL("> 1")), cB(`* "@daily"`, cL("$ x = 1")),
		cB(`~ "user.created"`, cL("% mail: Mailer"), cL("$ u = event"), cB("if u", cL("$ w = u"))),
		cB(`~ "order.paid" async`, cL("> event")), cB("~ user.deleted", cL("$ x = 1")),
		cB(`& "email.send"`, cL("+ concurrency(5)"), cL("+ retries(3)"), cL("+ timeout(30)"), cL("% mail: Mailer"), cL("$ m = message"), cB("if m", cL("$ y = 1")).els("else", cL("> null"))),
		cB("& jobs.high", cL("> message")),
		cB("macro! log(level, msg)", cB("if level >= 1", cL("print(msg)")), cL("$ x = 1"), cL("> x")),
		cB("macro! crud(name)", cB("@ GET /items", cL("> name")), cB(": Item", cL("id: int")), cL("inner!(name)"), cL("let q = 1"), cL("return q"), cL("? name :: 404")),
		cL(`log!("INFO", "starting")`), cL("crud!(users, 1 + 2)"),
		cB(`test "adds"`, cL("$ r = add(1, 2)"), cL("assert(r == 3)"), cL(`assert(r > 0, "positive")`)),
	}
}

// ---------------------------------------------------------------------------
// lexical corners

var c18Keywords = []string{"route", "type", "let", "return", "middleware", "use", "expects", "validate", "handle", "cron", "command", "queue", "func"}

func c18CornerWords() []string {
	w := append([]string{}, c18Keywords...)
	return append(w, "routes", "_let", "let_", "my_return", "_use", "Type", "x1queue", "_")
}

// positions in which an identifier W may occur
func c18WordPrograms(w string) [][]*c18N {
	return [][]*c18N{
		{cRoute(cL("$ " + w + " = 1"), cL("> " + w))},
		{cRoute(cL("$ "+w+" = 1"), cL(w+" = 2"), cL("> "+w+" + 1"))},
		{cRoute(cL("> x + " + w + " * 2"))},
		{cRoute(cLit("$ o =", "{", "}", cL(w+": 1"), cL("b: "+w)), cL("> o"))},
		{cRoute(cL("> {" + w + ": 1, b: 2}"))},
		{cRoute(cL("> o." + w))},
		{cRoute(cL("> o." + w + ".z[0]"))},
		{cRoute(cL(w+"(1)"), cL("> 1"))},
		{cRoute(cL("$ r = "+w+"(x)"), cL("> r"))},
		{cRoute(cL("o."+w+"(1)"), cL("> 1"))},
		{cRoute(cL(w+".m(1)"), cL("> 1"))},
		{cRoute(cL("$ "+w+".f = 1"), cL("> 1"))},
		{cRoute(cL(w+"[0] = 1"), cL("> 1"))},
		{cB(": T", cL(w+": int!"), cL("b: "+w))},
		{cB(": "+w, cL("a: int"))},
		{cB("! "+w+"(a: int): int", cL("> a"))},
		{cB("! f("+w+": int)", cL("> "+w))},
		{cB("! cmd "+w+": str! --"+w+": int = 1", cL("> 1"))},
		{cB("@ GET /"+w, cL("> 1"))},
		{cB("@ GET /api/"+w+"/:"+w, cL("> "+w))},
		{cL("const " + w + " = 1")},
		{cRoute(cB("for "+w+" in xs", cL("$ y = "+w)))},
		{cRoute(cB("for k, "+w+" in o", cL("$ y = k")))},
		{cL(`import "./m" as ` + w)},
		{cL(`from "./m" import { ` + w + `, a as ` + w + ` }`)},
		{cRoute(cLit("> match x", "{", "}", cL(w+" => 1"), cL("{"+w+"} => 2"), cL("["+w+", ..."+w+"] => 3")))},
		{cRoute(cL("$ v: "+w+" = x"), cL("> v"))},
		{cL(w + "!(1)")},
		{cB("~ "+w+".created", cL("$ x = 1"))},
		{cRoute(cL("% "+w+": Database"), cL("> 1"))},
		{cRoute(cL("< "+w+": T"), cL("> 1"))},
		{cRoute(cL("? "+w+": int = 1"), cL("> 1"))},
		{cRoute(cL("+ "+w+"(1)"), cL("> 1"))},
		{cRoute(cL("? "+w+"(x)"), cL("> 1"))},
		{cB("@ "+w+" /x", cL("> 1"))},
		{cB("@ rpc "+w+"(req: "+w+") -> "+w, cL("> req"))},
		{cB("macro! "+w+"(a, "+w+")", cL("> a"))},
		{cB("trait "+w, cL(w+"(a: int) -> int"))},
		// top-level, mid-line, after a comment that contains a brace / an apostrophe
		{cL("# {"), cL("const " + w + " = 1")},
		{cL("// it's"), cL("const " + w + " = 1"), cL("// it's")},
	}
}

func c18StringBodies() []string {
	s := []string{"", "plain", " ", "@", ":", "$", ">", "+", "%", "<", "?", "~", "*", "!", "&", "=", "@ GET /x { > 1 }", "$ x = 1", "> x", "#", "# not a comment", "//", "a // b", "http://h/p",
		"{", "}", "[", "]", "(", ")", "{ [ (", "} ] )", "let x", "route", "return", "type: 1", "a\\nb", "a\\tb", "a\\rb", "q\\\"q", "q\\'q", "b\\\\", "\\\\\\\"", "n\\0z", "\\a", "\\b", "\\f", "\\v", "\\x41", "\\x7e!", "\\x80", "caf\\xe9", "\\xff\\x00z", "\\u00e9", "\\u0080", "\\u4e16x",
		"é", "日本", "tab\there", "'", "it's", "--flag", "x--1", "100%", "a,b", "a;b", "\\\\", "\ufeff", "a\ufeffb"}
	return s
}

func c18StringPrograms() [][]*c18N {
	var out [][]*c18N
	for _, body := range c18StringBodies() {
		for _, q := range []string{`"`, `'`} {
			b := body
			if q == `'` {
				// the same body in single quotes: swap the roles of the quotes
				b = strings.ReplaceAll(strings.ReplaceAll(strings.ReplaceAll(b, `\"`, "\x00"), `'`, `\'`), "\x00", `"`)
				b = strings.ReplaceAll(b, `\\'`, `\'`)
			} else if strings.Contains(b, `"`) && !strings.Contains(b, `\"`) {
				continue
			}
			lit := q + b + q
			out = append(out,
				[]*c18N{cRoute(cL("$ s = "+lit), cL("> s"))},
				[]*c18N{cRoute(cL("$ s = "+lit), cL("% db: Database"), cL("$ t = s"), cL("> t")), cB("@ POST /next", cL("$ u = "+lit), cL("> u"))},
				[]*c18N{cRoute(cL("> " + lit + " + " + lit))},
				[]*c18N{cRoute(cL(`$ e = "q\"q"`), cL("$ t = "+lit), cL(`$ u = 'it\'s'`), cL("> [e, "+lit+", t]"))},
				[]*c18N{cRoute(cLit("$ a =", "[", "]", cL(lit), cL("x"), cL(lit)), cLit(">", "{", "}", cL("k: "+lit)))},
				[]*c18N{cRoute(cL("> f(" + lit + ", {k: " + lit + "})"))},
				[]*c18N{cL("const S = " + lit), cB(": T", cL("f: str = "+lit))},
				[]*c18N{cB("* "+lit+" job", cL("$ x = 1")), cB("~ "+lit, cL("$ x = 1")), cB("& "+lit, cL("$ x = 1"))},
				[]*c18N{cB("! c "+lit+" a: str = "+lit, cL("> a")), cB("test "+lit, cL("assert(x, "+lit+")"))},
			)
		}
	}
	return out
}

func c18CommentTexts() []string {
	return []string{"# plain", "// plain", "#", "//", "# {", "# }", "// [ (", "// it's", "# say \"hi", "# 'q' \"q\"", "# @ $ > + % < ? ~ * ! & =", "// $ x = 1", "# > x", "#!shebang", "# route let return type use",
		"// a \\", "# \\\"", "# é 日本", "/// triple", "#{x}", "# trailing blanks   ", "// don't } stop"}
}

func c18CommentPrograms() [][]*c18N {
	var out [][]*c18N
	own := func(c string) *c18N { return cLc("", c) } // a comment on its own line
	for _, c := range c18CommentTexts() {
		out = append(out,
			[]*c18N{own(c), cRoute(cL("$ x = 1"), cL("> x"))},
			[]*c18N{cRoute(own(c), cL("$ x = 1"), own(c), cL("> x"), own(c)), own(c)},
			[]*c18N{cRoute(cLc("$ x = 1", c), cLc("% db: Database", c), cLc("> x", c)), cB(": T", cLc("a: int", c)).cmt(c), cLc("const use = 1", c)},
			[]*c18N{cB("@ GET /c", cB("if x", cL("$ y = 2")).cmt(c).cmtZ(c), cL("> x")).cmt(c).cmtZ(c)},
			[]*c18N{own(c), cL("const A = 1"), own(c), cB(`~ "e"`, cL("$ x = 1")), own(c)},
			[]*c18N{cRoute(cLit("$ a =", "[", "]", cLc("1", c), cL("2")).cmt(c), cLit(">", "{", "}", cLc("k: 1", c), cLc("j: 2", c)).cmtZ(c))},
			[]*c18N{cRoute(cLc("$ s = \"a # b\"", c), cLc("> s + '//'", c))},
		)
	}
	return out
}

// programs into which a carriage return is inserted at every byte offset
func c18CRBases() []string {
	return []string{
		"@ GET /a {\n  $ x = 1\n  > x\n}\n",
		"@ GET /a {\n  $ s = \"one two\"\n  > s + 'three'\n}\n",
		"# top comment\n@ GET /a { # trailing\n  // inner comment\n  > 1\n}\n",
		": T {\n  a: int!\n  b: [str]\n}\n",
		"const A = 1 + 2\nconst B = \"x\"\n",
		"@ GET /a {\n  $ o = {\n    k: 1,\n    j: [1, 2]\n  }\n  if o.k > 1 {\n    > o\n  } else {\n    > null\n  }\n}\n",
		"! f(a: int, b: int): int {\n  > a - b\n}\n",
		"@ GET /a { $ a = 1 > a }\n",
		"import \"./m\" as m\n* \"0 * * * *\" job {\n  $ x = 1\n}\n",
	}
}

// ---------------------------------------------------------------------------
// enumeration

func c18Programs(thorough bool) []c18Prog {
	var out []c18Prog
	add := func(layer string, items ...*c18N) { out = append(out, c18Prog{layer, items}) }

	// LA: expressions — atoms, every operator (spaced and tight), all operator pairs, unary x operator
	for _, a := range c18Atoms() {
		add("LA-atom", cRoute(cL("$ r = "+a), cL("> r")))
		add("LA-atom", cRoute(cL("> "+a)))
	}
	for _, op := range c18Ops {
		for _, pr := range [][2]string{{"x", "1"}, {"1.5", `"a"`}, {"f(x)", "o.k"}, {"x", "y"}, {"x[0]", "y"}, {"o.k", "z"}} {
			add("LA-binary", cRoute(cL("> "+pr[0]+" "+op+" "+pr[1])))
			add("LA-binary", cRoute(cL("$ r = "+pr[0]+op+pr[1]), cL("> r")))
		}
		add("LA-binary", cRoute(cL("> x "+op+" -1")), cB("! c a: int = 2 "+op+" 1 --b: int = 1", cL("> a")))
		add("LA-binary", cRoute(cL("> x"+op+"-y")))
		add("LA-binary", cRoute(cL("> (x "+op+" 1) "+op+" (2 "+op+" y)")))
		for _, u := range []string{"-", "!"} {
			add("LA-unary", cRoute(cL("> "+u+"x "+op+" y")))
			add("LA-unary", cRoute(cL("> x "+op+" "+u+"y")))
		}
	}
	for _, o1 := range c18Ops {
		for _, o2 := range c18Ops {
			add("LA-precedence", cRoute(cL("> a "+o1+" b "+o2+" c")))
			if thorough {
				add("LA-precedence", cRoute(cL("$ r = a"+o1+"b"+o2+"c"), cL("> r")))
				for _, o3 := range c18Ops {
					add("LA-precedence3", cRoute(cL("> a "+o1+" b "+o2+" c "+o3+" d")))
				}
			}
		}
	}
	for _, a := range []string{"x", "f(1)", "[1]", "{a: 1}", `"s"`} {
		add("LA-pipe", cRoute(cL("> "+a+" |> g |> h(2)")))
		add("LA-pipe", cRoute(cL("$ r = "+a+" + 1 |> g"), cL("> r")))
	}

	// LB: statements — every list of <= 2 (thorough 3) simple statements; every block template x every
	// simple body statement; blocks nested in blocks; literal blocks
	simple := c18Simple()
	for _, s := range simple {
		add("LB-stmt", cRoute(cL(s)))
		add("LB-stmt", cB("! fn(x: int, o: object)", cL(s)))
	}
	for _, s1 := range simple {
		for _, s2 := range simple {
			add("LB-stmt2", cRoute(cL(s1), cL(s2)))
		}
	}
	if thorough {
		for _, s1 := range simple {
			for _, s2 := range simple {
				for _, s3 := range simple {
					add("LB-stmt3", cRoute(cL(s1), cL(s2), cL(s3)))
				}
			}
		}
	}
	blocks := c18Blocks()
	bodies := append(append([]string{}, simple...), c18LoopOnly()...)
	for _, mk := range blocks {
		add("LB-block", cRoute(mk(nil)))
		for _, s := range bodies {
			add("LB-block", cRoute(mk(cLs(s)), cL("> x")))
			add("LB-block", cRoute(cL("$ q = 0"), mk(cLs("$ w = 1", s))))
		}
		for _, mk2 := range blocks {
			add("LB-nested", cRoute(mk([]*c18N{mk2(cLs("$ w = 1", "break")), cL("continue")}), cL("> x")))
			add("LB-nested", cRoute(mk([]*c18N{cL("$ w = 1"), mk2(cLs("> w"))})))
			if thorough {
				for _, s := range bodies {
					add("LB-nested3", cRoute(mk([]*c18N{mk2(cLs(s)), cL(s)})))
				}
			}
		}
		for _, lb := range c18LiteralBlocks() {
			add("LB-literal", cRoute(mk([]*c18N{lb, cL("> 1")})))
		}
	}
	for _, lb := range c18LiteralBlocks() {
		add("LB-literal", cRoute(lb))
		add("LB-literal", cRoute(cL("$ x = 1"), lb, cL("> x")))
		add("LB-literal", cB(`test "t"`, lb, cL("assert(true)")))
	}

	// LC: declarations — every form alone, every ordered pair, route headers x body lines
	items := c18Items()
	for _, it := range items {
		add("LC-item", it)
	}
	for i, a := range items {
		for j, b := range items {
			if thorough || (i+j)%3 == 0 {
				add("LC-item2", a, b)
			}
		}
	}
	rl := c18RouteLines()
	for _, l := range rl {
		add("LC-route-line", cRoute(cL(l), cL("> 1")))
		add("LC-route-line", cB("@ POST /p -> T", cL(l), cL("$ x = 1"), cL(l), cL("> x")))
		for _, l2 := range rl {
			add("LC-route-line2", cB("@ PUT /p/:id", cL(l), cL(l2), cL("> id")))
		}
	}
	for _, hdr := range []string{`* "* * * * *" j`, `~ "e"`, `& "q"`, "@ query q(a: int) -> T", "@ rpc M(a: A) -> T", "! f(a: int)", "! c a: int"} {
		for _, l := range append(append([]string{}, rl...), simple...) {
			add("LC-container", cB(hdr, cL(l), cL("$ e = 1")))
		}
		for _, mk := range blocks {
			add("LC-container", cB(hdr, mk(cLs("$ w = 1"))))
		}
	}

	// LD: types in every position
	for _, t := range c18Types() {
		add("LD-type", cB(": T", cL("f: "+t), cL("g: "+t+"!")))
		add("LD-type", cB("! f(a: "+t+"): "+t, cL("> a")))
		add("LD-type", cB("! g(a: "+t+", b: int = 1) -> "+t, cL("> a")))
		add("LD-type", cRoute(cL("? q: "+t), cL("% d: "+t), cL("< input: "+t), cL("$ v: "+t+" = x"), cL("> v")))
		add("LD-type", cB("@ GET /t -> "+t, cL("> 1")), cL("const C: "+t+" = x"))
		add("LD-type", cB("trait Tr", cL("m(a: "+t+") -> "+t)), cB("@ rpc S", cL("M("+t+") -> "+t)), cB("contract C", cL("@ GET /x -> "+t)))
		add("LD-type", cB(": G<T>", cL("f: "+t), cB("m(a: "+t+") -> "+t, cL("> a"))))
		add("LD-type", cB("! c a: "+t+" --b: "+t+"!", cL("> a")))
	}

	// LE: lexical corners
	for _, w := range c18CornerWords() {
		for _, p := range c18WordPrograms(w) {
			add("LE-word", p...)
		}
	}
	for _, p := range c18StringPrograms() {
		add("LE-string", p...)
	}
	for _, p := range c18CommentPrograms() {
		add("LE-comment", p...)
	}
	add("LE-misc", cRoute(cLit("$ a =", "[", "]", cLs("!x", "-1", "(1)", "x >= 1", `"@ x"`, `"$ y"`, "{k: 1}", "[2]")...)))
	add("LE-misc", cRoute(cLit("$ o =", "{", "}", cLs(":k = 1", "type: 2", `:j = "@"`)...), cL("> o")))
	add("LE-misc", cRoute(cL("$ y = x--1"), cL("> --y")))
	add("LE-misc", cRoute(cL("$ y = x - -1"), cL("> - -y")))
	add("LE-misc", cRoute(cL("> x"), cL(":: 201")))
	add("LE-misc", cRoute(cL("$ r = 5%2"), cL("$ q = a %b"), cL("> r % q")))
	add("LE-misc", cB("@ GET /x", cL("> 1")), cB("@GET /y", cL(">1")), cB("@ GET /z", cL("$x=1"), cL(">x")))
	add("LE-misc", cL("  "), cL(""), cL("# only a comment"))
	// scale: one physical line far beyond any line buffer a tool may use (64 KiB is bufio.Scanner's default token
	// limit): a long string literal, a long comment, a long array literal, a long line of blanks - each followed by more
	// program text that must survive
	for _, n := range []int{65536, 70000, 200000} {
		long := strings.Repeat("a", n)
		add("LE-long-line", cRoute(cL("$ s = \""+long+"\""), cL("> 1")), cB("@ GET /after", cL("> 2")))
		add("LE-long-line", cL("# "+long), cRoute(cL("> 1")))
		add("LE-long-line", cRoute(cL("$ a = ["+strings.TrimSuffix(strings.Repeat("1, ", n/3), ", ")+"]"), cL("> 1")), cB("@ GET /after", cL("> 2")))
		add("LE-long-line", cRoute(cL("$ x = 1"+strings.Repeat(" ", n)), cL("> x")), cB("@ GET /after", cL("> 2")))
	}
	add("LE-misc")
	return out
}

// c18Files lists every .glyph / .glyphx file below <repo>/examples and <repo>/tests.
func c18Files(root string) []string {
	var out []string
	for _, d := range []string{"examples", "tests"} {
		filepath.Walk(filepath.Join(root, d), func(p string, info os.FileInfo, err error) error {
			if err != nil || info.IsDir() {
				return nil
			}
			if e := filepath.Ext(p); e == ".glyph" || e == ".glyphx" {
				rel, _ := filepath.Rel(root, p)
				out = append(out, rel)
			}
			return nil
		})
	}
	sort.Strings(out)
	return out
}

func c18Origin(p c18Prog, idx int, st string) string { return fmt.Sprintf("%s#%d/%s", p.Layer, idx, st) }
