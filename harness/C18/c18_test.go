package main

// Verification harness for C18 (source rewriting tools preserve the program).
// Injected into cmd/glyph (package main) so that it drives the very functions
// behind `glyph fmt`, `glyph expand`, `glyph compact` and the CLI's two front
// ends parseSource / parseExpandedSource.
//
// Enumerated space (see c18_gen_test.go):
//   1. every generated program (layers LA..LE) in every layout style,
//   2. a carriage return inserted at every byte offset of a set of base programs,
//   3. every .glyph/.glyphx file under <repo>/examples and <repo>/tests (as is,
//      with CRLF line ends, with a BOM),
//   4. every string of at most N symbols over a 16-symbol alphabet.
// Every text is judged for idempotence of fmt; texts the compact front end
// accepts are judged for token preservation by fmt and for tree equality of
// expand / expand+compact (c18_oracle_test.go).

import (
	"encoding/base64"
	"fmt"
	"hash/fnv"
	"io"
	"log"
	"os"
	"path/filepath"
	"strings"
	"sync/atomic"
	"testing"
	"time"

	"github.com/glyphlang/glyph/internal/verif/vk"
)

var c18Alphabet = []string{"\n", "\r", " ", "{", "}", "[", "]", "(", ")", "\"", "'", "\\", "#", "/", "a", c18BOM}

type c18Ctx struct {
	p        vk.Params
	res      *vk.Result
	seen     map[string]bool
	distinct map[uint64]struct{}
	cur      atomic.Value // string: the case being judged (for the hang watchdog)
	progress atomic.Int64
}

func c18Hash(s string) uint64 {
	h := fnv.New64a()
	io.WriteString(h, s)
	return h.Sum64()
}

func (c *c18Ctx) mine(src string) bool {
	return c.p.NShard <= 1 || int(c18Hash(src)%uint64(c.p.NShard)) == c.p.Shard
}

// splitKeep splits s into pieces that concatenate back to s: lines (with their terminators)
func c18SplitLines(s string) []string {
	var out []string
	start := 0
	for i := 0; i < len(s); i++ {
		if s[i] == '\n' || (s[i] == '\r' && (i+1 >= len(s) || s[i+1] != '\n')) {
			out = append(out, s[start:i+1])
			start = i + 1
		}
	}
	if start < len(s) {
		out = append(out, s[start:])
	}
	return out
}

// words with the blanks that follow them (blanks are only ever removed together with a word, so
// that shrunk examples stay readable)
func c18SplitWords(s string) []string {
	var out []string
	start := 0
	isWs := func(b byte) bool { return b == ' ' || b == '\t' || b == '\n' || b == '\r' }
	for i := 1; i <= len(s); i++ {
		if i == len(s) || (!isWs(s[i]) && isWs(s[i-1])) {
			out = append(out, s[start:i])
			start = i
		}
	}
	return out
}

// single characters, each with the blanks that follow it
func c18SplitChars(s string) []string {
	var out []string
	for _, r := range c18Runes(s) {
		if n := len(out); n > 0 && (r == " " || r == "\t" || r == "\n" || r == "\r") {
			out[n-1] += r
			continue
		}
		out = append(out, r)
	}
	return out
}

func (c *c18Ctx) shrink(src, key string) string {
	stage := c18StageOfKey(key)
	test := func(ps []string) bool {
		cand := strings.Join(ps, "")
		c.cur.Store("shrinking " + key + "\x00" + cand)
		c.progress.Add(1)
		ok := c18JudgeStages(cand, false, stage).has(key)
		c.cur.Store("")
		return ok
	}
	cur := strings.Join(c18DDMin(c18SplitLines(src), test, 600), "")
	cur = strings.Join(c18DDMin(c18SplitWords(cur), test, 600), "")
	if len(cur) <= 200 {
		cur = strings.Join(c18DDMin(c18SplitChars(cur), test, 600), "")
	}
	return cur
}

func (c *c18Ctx) report(origin, src string, v *c18Verdict, idemOnly bool) {
	for _, f := range v.Findings {
		if c.seen[f.Key] {
			c.res.Violate(f.Key, "", nil) // counted as a suppressed duplicate
			continue
		}
		c.seen[f.Key] = true
		min, desc := src, f.Desc
		if strings.HasPrefix(f.Key, "fmt/not-idempotent/") {
			min = c18ShrinkIdem(src)
		} else if !idemOnly {
			min = c.shrink(src, f.Key)
			for _, g := range c18Judge(min, false).Findings {
				if g.Key == f.Key {
					desc = g.Desc
				}
			}
		}
		c.res.Violate(f.Key, desc+" [first seen in "+origin+"]", c18MkReplay(f.Key, origin, min, idemOnly))
	}
}

// judge one case of the corpus
func (c *c18Ctx) eval(origin, src string, idemOnly bool, layer string) {
	c.cur.Store(origin + "\x00" + src)
	c.progress.Add(1)
	v := c18Judge(src, idemOnly)
	c.cur.Store("")
	c.res.Evaluations++
	c.res.Count("cases/"+layer, 1)
	if v.Accepted {
		c.res.Count("accepted/"+layer, 1)
		h := c18Hash(src)
		if _, ok := c.distinct[h]; !ok {
			c.distinct[h] = struct{}{}
		}
		if c.res.Evaluations%4099 == 0 {
			c.res.Sample(6, map[string]string{"origin": origin, "source": src})
		}
	}
	if len(v.Findings) > 0 {
		c.res.Count("failing_cases/"+layer, 1)
		if os.Getenv("C18_DUMP_FILES") != "" && strings.HasPrefix(origin, "file:") {
			for _, f := range v.Findings {
				fmt.Fprintf(os.Stderr, "FILE %s %s\n", origin, f.Key)
			}
		}
		c.report(origin, src, v, idemOnly)
	}
}

func (c *c18Ctx) expired() bool {
	if c.p.Expired() {
		c.res.Exhaustive = false
		return true
	}
	return false
}

func c18RepoRoot() string {
	wd, _ := os.Getwd()
	return filepath.Clean(filepath.Join(wd, "..", ".."))
}

func TestVerif_C18(t *testing.T) {
	log.SetOutput(io.Discard)
	p := vk.Env()
	res := vk.NewResult("every generated program (all parser productions: expressions with all operator pairs, statement lists, block nestings, every declaration form and pairs of them, every type form in every position, identifiers spelled like expanded keywords in every identifier position, string and comment corners) rendered in every layout style; a carriage return inserted at every offset of base programs; every example/test source file; every symbol string up to the length bound. A case is non-trivial when the compact front end accepts it (distinct by text), or, for symbol strings, when fmt changes it")
	if p.Replay != "" {
		var rp c18Replay
		if err := vk.LoadReplay(p.Replay, &rp); err != nil {
			t.Fatal(err)
		}
		raw, err := base64.StdEncoding.DecodeString(rp.B64)
		if err != nil {
			t.Fatal(err)
		}
		src := string(raw)
		v := c18Judge(src, rp.Idem)
		ok := false
		fmt.Printf("replay %s\nsource: %s\naccepted=%v\n", rp.Key, c18Q(src), v.Accepted)
		for _, f := range v.Findings {
			fmt.Printf("finding %s :: %s\n", f.Key, f.Desc)
			if f.Key == rp.Key {
				ok = true
				res.Violate(f.Key, f.Desc, rp)
			}
		}
		res.Replayed = &ok
		res.Write(p)
		return
	}

	c := &c18Ctx{p: p, res: res, seen: map[string]bool{}, distinct: map[uint64]struct{}{}}
	c.cur.Store("")
	done := make(chan any, 1)
	go func() {
		defer func() { done <- recover() }()
		c.run()
	}()
	// generous hang watchdog: a case takes milliseconds; the machine may be heavily loaded
	last, lastAt := int64(-1), time.Now()
	tick := time.NewTicker(time.Second)
	defer tick.Stop()
	for running := true; running; {
		select {
		case pan := <-done:
			if pan != nil {
				t.Fatalf("harness panic: %v", pan)
			}
			running = false
		case <-tick.C:
			if n := c.progress.Load(); n != last {
				last, lastAt = n, time.Now()
			} else if cur := c.cur.Load().(string); cur != "" && time.Since(lastAt) > 240*time.Second {
				// (cur is empty while the harness itself works: generating / rendering the corpus)
				origin, src, _ := strings.Cut(cur, "\x00")
				res.Violate("hang", "a tool or front end did not return within 240 s on "+c18Q(src)+" ["+origin+"]", c18MkReplay("hang", origin, src, false))
				res.Exhaustive = false
				running = false
			}
		}
	}
	res.Distinct += int64(len(c.distinct))
	res.Write(p)
}

func (c *c18Ctx) run() {
	p, res := c.p, c.res
	thorough := p.Thorough

	// 1. generated programs x styles
	progs := c18Programs(thorough)
	res.Bounds["generated_programs"] = len(progs)
	res.Bounds["layout_styles"] = len(c18Styles)
	res.Bounds["generator"] = map[string]int{"atoms": len(c18Atoms()), "binary_operators": len(c18Ops), "simple_statements": len(c18Simple()), "block_templates": len(c18Blocks()),
		"literal_blocks": len(c18LiteralBlocks()), "declaration_forms": len(c18Items()), "route_body_lines": len(c18RouteLines()), "type_forms": len(c18Types()),
		"corner_words": len(c18CornerWords()), "word_positions": len(c18WordPrograms("w")), "string_bodies": len(c18StringBodies()), "comment_texts": len(c18CommentTexts()), "cr_base_programs": len(c18CRBases())}
	res.Bounds["statement_list_length"] = map[bool]int{false: 2, true: 3}[thorough]
	res.Bounds["operator_chain_length"] = map[bool]int{false: 3, true: 4}[thorough]
	dump := os.Getenv("C18_DUMP_REJECTED") != ""
	for i, pr := range progs {
		if i%64 == 0 && c.expired() {
			return
		}
		for _, st := range c18Styles {
			src := c18Render(pr.Items, st)
			if !c.mine(src) {
				continue
			}
			idem := st.BOM // the lexer rejects a BOM: only idempotence applies
			before := res.Counters["accepted/"+pr.Layer]
			c.eval(c18Origin(pr, i, st.Name), src, idem, pr.Layer)
			if dump && st.Name == "canonical" && res.Counters["accepted/"+pr.Layer] == before {
				_, err := c18Parse(src)
				fmt.Fprintf(os.Stderr, "REJECTED %s: %v\n%s\n", c18Origin(pr, i, st.Name), firstLine(fmt.Sprint(err)), src)
			}
		}
	}

	// 2. a carriage return at every offset
	crCases := 0
	for bi, base := range c18CRBases() {
		for off := 0; off <= len(base); off++ {
			src := base[:off] + "\r" + base[off:]
			crCases++
			if c.mine(src) {
				c.eval(fmt.Sprintf("CR-insert#%d@%d", bi, off), src, false, "CR-insert")
			}
		}
		if c.expired() {
			return
		}
	}
	res.Bounds["cr_insertion_cases"] = crCases

	// 3. source files of the repository
	root := c18RepoRoot()
	files := c18Files(root)
	res.Bounds["source_files"] = len(files)
	for _, rel := range files {
		if c.expired() {
			return
		}
		b, err := os.ReadFile(filepath.Join(root, rel))
		if err != nil {
			res.Note("cannot read %s: %v", rel, err)
			continue
		}
		src := string(b)
		if filepath.Ext(rel) == ".glyphx" {
			// expanded sources: `glyph fmt` and `glyph expand` do not apply to them; the statement says
			// nothing about compact-then-expand. Only idempotence of fmt is judged.
			if c.mine(src) {
				c.eval("file:"+rel, src, true, "files-glyphx")
			}
			continue
		}
		variants := []struct {
			name, text string
			idem       bool
		}{
			{"", src, false},
			{"+crlf", strings.ReplaceAll(strings.ReplaceAll(src, "\r\n", "\n"), "\n", "\r\n"), false},
			{"+trailing-blanks", strings.ReplaceAll(strings.ReplaceAll(src, "\r\n", "\n"), "\n", " \t\n\n\n"), false},
			{"+bom", c18BOM + src, true},
		}
		for _, va := range variants {
			if c.mine(va.text) {
				c.eval("file:"+rel+va.name, va.text, va.idem, "files")
			}
		}
	}

	// 4. every symbol string up to the bound
	maxLen := 5
	if thorough {
		maxLen = 6
	}
	res.Bounds["symbol_string_length"] = maxLen
	res.Bounds["symbol_alphabet"] = len(c18Alphabet)
	var changed int64
	var rec func(prefix string, n int) bool
	rec = func(prefix string, n int) bool {
		c.cur.Store("symbols\x00" + prefix)
		c.progress.Add(1)
		v := c18Judge(prefix, false)
		res.Evaluations++
		res.Counters["cases/symbol-strings"]++
		if v.Accepted {
			res.Counters["accepted/symbol-strings"]++
		}
		if v.Changed {
			changed++
		}
		if len(v.Findings) > 0 {
			res.Counters["failing_cases/symbol-strings"]++
			c.report("symbol-string", prefix, v, false)
		}
		if n == maxLen {
			return true
		}
		if n >= 2 && res.Evaluations%512 == 0 && c.expired() {
			return false
		}
		for _, a := range c18Alphabet {
			if !rec(prefix+a, n+1) {
				return false
			}
		}
		return true
	}
	// shard by the first two symbols; the strings of length < 2 belong to shard 0
	if p.Shard == 0 {
		c.evalSymbols("")
		for _, a := range c18Alphabet {
			c.evalSymbols(a)
		}
	}
	item := 0
	for _, a := range c18Alphabet {
		for _, b := range c18Alphabet {
			item++
			if !p.Mine(item) {
				continue
			}
			if maxLen >= 2 && !rec(a+b, 2) {
				res.Distinct += changed
				return
			}
		}
	}
	res.Distinct += changed
}

func (c *c18Ctx) evalSymbols(s string) {
	v := c18Judge(s, false)
	c.res.Evaluations++
	c.res.Counters["cases/symbol-strings"]++
	if v.Accepted {
		c.res.Counters["accepted/symbol-strings"]++
	}
	if len(v.Findings) > 0 {
		c.res.Counters["failing_cases/symbol-strings"]++
		c.report("symbol-string", s, v, false)
	}
}
