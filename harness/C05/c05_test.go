package main

// Verification harness for C05 (requests reach exactly the declared handler).
// Injected into cmd/glyph so that it can drive the CLI's own wiring
// (parseSource -> setupRoutes -> mux -> createHandler -> loggingMiddleware),
// exactly the way startServer assembles it, minus the socket.
//
// Space: every route table (ordered list of (method, pattern) declarations,
// duplicates allowed) over a small pattern grammar  x  every request (method,
// raw request path over a segment alphabet that includes encoded and empty
// segments), pushed through three seams:
//
//	match        server.Router.Match directly
//	compiled     the handler `glyph run` serves in compiled mode
//	interpreted  the handler `glyph run --interpret` serves
//
// Each table is rendered to GlyphLang source, parsed by the real parser, and each
// body returns a marker {r: <declaration index>, <param>: <param>...}.
//
// Oracle: c05Ref, a reference dispatcher written from the property statement
// only.  Where the statement is silent (empty path segments: trailing and
// doubled slashes) every reasonable reading is accepted.

import (
	"encoding/json"
	"fmt"
	"io"
	"log"
	"net/http"
	"net/http/httptest"
	"net/url"
	"os"
	"runtime"
	"sort"
	"strings"
	"testing"

	"github.com/fatih/color"
	"github.com/glyphlang/glyph/internal/verif/vk"
	"github.com/glyphlang/glyph/pkg/server"
)

// ---------------------------------------------------------------------------
// the enumerated space

type c05Decl struct {
	M string `json:"m"` // GET | POST
	P string `json:"p"` // /a/:x
}

func (d c05Decl) String() string { return d.M + " " + d.P }

type c05Case struct {
	Seam   string    `json:"seam"`
	Table  []c05Decl `json:"table"`
	Method string    `json:"method"`
	Path   string    `json:"path"` // raw request target, still percent-encoded
}

func (c c05Case) String() string {
	var ds []string
	for _, d := range c.Table {
		ds = append(ds, d.String())
	}
	return fmt.Sprintf("[%s] table{%s} request %s %s", c.Seam, strings.Join(ds, "; "), c.Method, c.Path)
}

var c05Seams = []string{"match", "compiled", "interpreted"}

func c05PatSegs(p string) []string { return strings.Split(strings.TrimPrefix(p, "/"), "/") }

// all words of length 1..maxLen over alpha, joined as /s1/s2..
func c05Words(alpha []string, minLen, maxLen int) []string {
	var out []string
	var rec func(prefix []string)
	rec = func(prefix []string) {
		if len(prefix) >= minLen {
			out = append(out, "/"+strings.Join(prefix, "/"))
		}
		if len(prefix) == maxLen {
			return
		}
		for _, a := range alpha {
			rec(append(append([]string{}, prefix...), a))
		}
	}
	rec(nil)
	sort.SliceStable(out, func(i, j int) bool { return strings.Count(out[i], "/") < strings.Count(out[j], "/") })
	return out
}

var c05PatAlpha = []string{"a", "b", ":x", ":y"}

// request segments: the two static words, the same word in another case (also the
// "some other value" for parameters), an encoded spelling of a static word, a
// doubly encoded one (decodes to the text "%61", which is not "a"), a segment
// containing an encoded slash, one containing an encoded question mark, and
// the empty segment (root, trailing slash, doubled slash).
var c05ReqAlpha = []string{"a", "b", "A", "%61", "%2561", "a%2Fb", "a%3Fb", ""}
var c05Methods = []string{"GET", "POST", "PUT", "HEAD"}

func c05Decls(maxLen int) []c05Decl {
	var out []c05Decl
	for _, p := range c05Words(c05PatAlpha, 1, maxLen) {
		for _, m := range []string{"GET", "POST"} {
			out = append(out, c05Decl{m, p})
		}
	}
	return out
}

// a family of tables: all ordered lists of exactly `size` declarations from
// decls (firstGET: only those whose first declaration is a GET)
type c05Family struct {
	name     string
	decls    []c05Decl
	size     int
	maxLen   int
	alpha3   []string // segment alphabet of the 3-segment request paths
	firstGET bool
	// pad > 0: the enumerated declarations are embedded among `pad` static routes per method (/p0, /p1, ... which no
	// request names), some before, some between and some after them: dispatch must not depend on how large the table
	// is (pre-sorted or indexed route lists behave differently beyond small sizes)
	pad int
	// where the static routes go: "" = some before, some between, some after; "after" = all declared last;
	// "before" = all declared first
	padAt string
}

func (f c05Family) count() int {
	n := 1
	for i := 0; i < f.size; i++ {
		n *= len(f.decls)
	}
	if f.firstGET {
		n /= 2
	}
	return n
}

func (f c05Family) table(i int) []c05Decl {
	t := make([]c05Decl, f.size)
	for k := f.size - 1; k >= 1; k-- {
		t[k] = f.decls[i%len(f.decls)]
		i /= len(f.decls)
	}
	if f.firstGET {
		t[0] = f.decls[2*i] // decls alternate GET, POST
	} else {
		t[0] = f.decls[i]
	}
	if f.pad > 0 {
		var out []c05Decl
		k := 0
		pads := func(n int) {
			for j := 0; j < n; j++ {
				for _, m := range []string{"GET", "POST"} {
					// padding of all specificities: static, one parameter after / before a static segment
					pat := fmt.Sprintf("/p%d", k)
					switch k % 3 {
					case 1:
						pat = fmt.Sprintf("/p%d/:z", k)
					case 2:
						pat = fmt.Sprintf("/:z/p%d", k)
					}
					out = append(out, c05Decl{m, pat})
				}
				k++
			}
		}
		before := f.pad / 2
		between := (f.pad - before) / (len(t))
		switch f.padAt {
		case "after":
			before, between = 0, 0
		case "before":
			before, between = f.pad, 0
		}
		pads(before)
		for i, d := range t {
			out = append(out, d)
			if i < len(t)-1 {
				pads(between)
			}
		}
		pads(f.pad - k)
		return out
	}
	return t
}

var c05Alpha3 = []string{"a", "b", "A", "a%2Fb", "a%3Fb", ""}
var c05Alpha3Small = []string{"a", "b", "A", ""}

func c05Families(thorough bool) []c05Family {
	d2 := c05Decls(2)
	if !thorough {
		return []c05Family{
			{name: "patterns<=2seg,1decl", decls: d2, size: 1, maxLen: 2, alpha3: c05Alpha3},
			{name: "patterns<=2seg,2decl", decls: d2, size: 2, maxLen: 2, alpha3: c05Alpha3},
			{name: "patterns<=2seg,2decl,among-18-unrelated-routes-per-method", decls: d2, size: 2, maxLen: 2, alpha3: nil, pad: 18},
			{name: "patterns<=2seg,2decl,then-18-unrelated-routes-per-method", decls: d2, size: 2, maxLen: 2, alpha3: nil, pad: 18, padAt: "after"},
			{name: "patterns<=2seg,2decl,after-18-unrelated-routes-per-method", decls: d2, size: 2, maxLen: 2, alpha3: nil, pad: 18, padAt: "before"}}
	}
	d3 := c05Decls(3)
	return []c05Family{
		{name: "patterns<=3seg,1decl", decls: d3, size: 1, maxLen: 3, alpha3: c05Alpha3},
		{name: "patterns<=3seg,2decl", decls: d3, size: 2, maxLen: 3, alpha3: c05Alpha3},
		{name: "patterns<=2seg,3decl,first=GET", decls: d2, size: 3, maxLen: 2, alpha3: c05Alpha3Small, firstGET: true},
		{name: "patterns<=2seg,2decl,among-18-unrelated-routes-per-method", decls: d2, size: 2, maxLen: 2, alpha3: c05Alpha3Small, pad: 18},
		{name: "patterns<=2seg,2decl,then-18-unrelated-routes-per-method", decls: d2, size: 2, maxLen: 2, alpha3: c05Alpha3Small, pad: 18, padAt: "after"},
		{name: "patterns<=2seg,2decl,after-18-unrelated-routes-per-method", decls: d2, size: 2, maxLen: 2, alpha3: c05Alpha3Small, pad: 18, padAt: "before"},
		{name: "patterns<=2seg,2decl,among-40-unrelated-routes-per-method", decls: d2, size: 2, maxLen: 2, alpha3: nil, pad: 40},
		{name: "patterns<=2seg,2decl,then-40-unrelated-routes-per-method", decls: d2, size: 2, maxLen: 2, alpha3: nil, pad: 40, padAt: "after"}}
}

// request paths for a table family: words of length <= 2 over the full segment
// alphabet, words of length 3 over alpha3, words of length 4 over {a, b, empty}
// when patterns reach 3 segments, and 12 short paths with a query string that
// names the path parameters (it must not disturb dispatch or binding).
func c05Paths(f c05Family) []string {
	out := c05Words(c05ReqAlpha, 1, 2)
	if f.alpha3 != nil {
		out = append(out, c05Words(f.alpha3, 3, 3)...)
	}
	if f.maxLen >= 3 {
		out = append(out, c05Words([]string{"a", "b", ""}, 4, 4)...)
	}
	for _, p := range c05Words([]string{"a", "b", "A"}, 1, 2) {
		out = append(out, p+"?x=b&y=A")
	}
	return out
}

// ---------------------------------------------------------------------------
// reference dispatcher (from the property statement only)

type c05Expect struct {
	Idx    int                 // declaration index, -1 = 404 and nothing runs
	Bind   map[string][]string // parameter name -> acceptable values
	Status int                 // only set by the defect models (attribution): status when nothing runs, 0 = 404
}

func (e c05Expect) String() string {
	if e.Idx < 0 && e.Status != 0 {
		return fmt.Sprintf("%d/nothing runs", e.Status)
	}
	if e.Idx < 0 {
		return "404/nothing runs"
	}
	var ks []string
	for k := range e.Bind {
		ks = append(ks, k)
	}
	sort.Strings(ks)
	var b []string
	for _, k := range ks {
		b = append(b, k+"="+strings.Join(e.Bind[k], "|"))
	}
	return fmt.Sprintf("declaration #%d {%s}", e.Idx, strings.Join(b, ","))
}

// c05Ref: the declaration for that method and the most specific matching
// pattern (fewest parameter segments; ties to the earlier declaration), every
// parameter bound to the corresponding request segment; otherwise 404.
func c05Ref(table []c05Decl, method string, segs []string, emptyBindsParam bool) (e c05Expect, matching int) {
	best, bestN := -1, 0
	for i, d := range table {
		if d.M != method {
			continue
		}
		ps := c05PatSegs(d.P)
		if len(ps) != len(segs) {
			continue
		}
		n, ok := 0, true
		for j, s := range ps {
			if strings.HasPrefix(s, ":") {
				n++
				if segs[j] == "" && !emptyBindsParam {
					ok = false
				}
			} else if s != segs[j] || segs[j] == "" {
				ok = false
			}
		}
		if !ok {
			continue
		}
		matching++
		if best < 0 || n < bestN {
			best, bestN = i, n
		}
	}
	e = c05Expect{Idx: best, Bind: map[string][]string{}}
	if best >= 0 {
		for j, s := range c05PatSegs(table[best].P) {
			if strings.HasPrefix(s, ":") {
				e.Bind[s[1:]] = append(e.Bind[s[1:]], segs[j])
			}
		}
	}
	return
}

// c05RawSegs splits the request target on "/" and decodes every segment.
func c05RawSegs(raw string) []string {
	if q := strings.Index(raw, "?"); q >= 0 {
		raw = raw[:q] // the query string is not part of the path
	}
	parts := strings.Split(strings.TrimPrefix(raw, "/"), "/")
	for i, p := range parts {
		if d, err := url.PathUnescape(p); err == nil {
			parts[i] = d
		}
	}
	return parts
}

// c05Expected: all outcomes the statement allows for a request.  A path without
// empty segments has exactly one.  The statement does not say what an empty
// segment (trailing slash, doubled slash, the root) is, so for those every
// reading is allowed: empty segments dropped (all / trailing ones / the last
// one) or kept, and a kept empty segment may or may not bind a parameter.
func c05Expected(table []c05Decl, method, raw string) (out []c05Expect, matching int) {
	readings := c05Readings(c05RawSegs(raw))
	if len(readings) == 1 {
		e, m := c05Ref(table, method, readings[0], false)
		return []c05Expect{e}, m
	}
	seen := map[string]bool{}
	for _, r := range readings {
		for _, eb := range []bool{false, true} {
			e, m := c05Ref(table, method, r, eb)
			if m > matching {
				matching = m
			}
			if k := e.String(); !seen[k] {
				seen[k] = true
				out = append(out, e)
			}
		}
	}
	return
}

func c05Readings(segs []string) [][]string {
	var readings [][]string
	hasEmpty := false
	for _, s := range segs {
		if s == "" {
			hasEmpty = true
		}
	}
	readings = append(readings, segs)
	if hasEmpty {
		var all []string
		for _, s := range segs {
			if s != "" {
				all = append(all, s)
			}
		}
		tr := segs
		for len(tr) > 0 && tr[len(tr)-1] == "" {
			tr = tr[:len(tr)-1]
		}
		readings = append(readings, all, tr)
		if segs[len(segs)-1] == "" {
			readings = append(readings, segs[:len(segs)-1])
		}
	}
	return readings
}

// ---------------------------------------------------------------------------
// defect models.  NOT part of the oracle: they are consulted only after the
// reference has already rejected an observation, to decide which finding key
// the failure is filed under.  Each model is the reference with one deliberate
// deviation that reproduces a defect seen in the tree; a failure is attributed
// to a (smallest) set of deviations only if the deviated reference predicts the
// observed response exactly.

type c05Cause struct {
	SamePath bool // compiled mode: the body run is that of the LAST declaration with the same path text
	DupName  bool // specificity counts distinct parameter names, not parameter segments
	Slash    bool // the request is split into segments after percent-decoding, so %2F separates
	QMark    bool // interpreted mode: the interpreter re-derives parameters from the decoded path cut at the first "?"
}

func (f c05Cause) String() string {
	var n []string
	if f.SamePath {
		n = append(n, "compiled-body-keyed-by-path")
	}
	if f.DupName {
		n = append(n, "repeated-param-name-counts-once")
	}
	if f.Slash {
		n = append(n, "encoded-slash-splits-segment")
	}
	if f.QMark {
		n = append(n, "interpreter-cuts-path-at-encoded-question-mark")
	}
	return strings.Join(n, "+")
}

func c05Model(table []c05Decl, method, raw string, f c05Cause) (out []c05Expect) {
	segs := c05RawSegs(raw)
	if f.Slash {
		segs = strings.Split(strings.Join(segs, "/"), "/")
	}
	for _, r := range c05Readings(segs) {
		for _, eb := range []bool{false, true} {
			out = append(out, c05ModelDispatch(table, method, r, eb, f))
		}
	}
	return
}

func c05ModelDispatch(table []c05Decl, method string, segs []string, emptyBindsParam bool, f c05Cause) c05Expect {
	best, bestN := -1, 0
	for i, d := range table {
		if d.M != method {
			continue
		}
		ps := c05PatSegs(d.P)
		if len(ps) != len(segs) {
			continue
		}
		n, ok := 0, true
		names := map[string]bool{}
		for j, s := range ps {
			if strings.HasPrefix(s, ":") {
				n++
				names[s] = true
				if segs[j] == "" && !emptyBindsParam {
					ok = false
				}
			} else if s != segs[j] || segs[j] == "" {
				ok = false
			}
		}
		if !ok {
			continue
		}
		if f.DupName {
			n = len(names)
		}
		if best < 0 || n < bestN {
			best, bestN = i, n
		}
	}
	e := c05Expect{Idx: best, Bind: map[string][]string{}}
	if best < 0 {
		return e
	}
	ps := c05PatSegs(table[best].P)
	bindFrom := segs
	if f.QMark {
		joined := strings.Join(segs, "/")
		if q := strings.Index(joined, "?"); q >= 0 {
			bindFrom = strings.Split(strings.Trim(joined[:q], "/"), "/")
			if len(bindFrom) != len(ps) {
				return c05Expect{Idx: -1, Status: 500}
			}
			for j, s := range ps {
				if !strings.HasPrefix(s, ":") && s != bindFrom[j] {
					return c05Expect{Idx: -1, Status: 500}
				}
			}
		}
	}
	for j, s := range ps {
		if strings.HasPrefix(s, ":") {
			e.Bind[s[1:]] = append(e.Bind[s[1:]], bindFrom[j])
		}
	}
	if f.SamePath {
		for j := range table {
			if table[j].P == table[best].P {
				e.Idx = j
			}
		}
	}
	return e
}

// c05Attribute returns the smallest set of modelled defects that predicts the
// observation, or ok=false.
func c05Attribute(c c05Case, o c05Obs) (c05Cause, bool) {
	if o.Panic != "" {
		return c05Cause{}, false
	}
	var best c05Cause
	bestBits, found := 99, false
	for mask := 1; mask < 16; mask++ {
		f := c05Cause{SamePath: mask&1 != 0, DupName: mask&2 != 0, Slash: mask&4 != 0, QMark: mask&8 != 0}
		if f.SamePath && c.Seam != "compiled" || f.QMark && c.Seam != "interpreted" || f.Slash && c.Seam == "match" {
			continue
		}
		bits := 0
		for m := mask; m != 0; m >>= 1 {
			bits += m & 1
		}
		if bits >= bestBits {
			continue
		}
		for _, e := range c05Model(c.Table, c.Method, c.Path, f) {
			if c05Conforms(c.Table, e, o) {
				best, bestBits, found = f, bits, true
				break
			}
		}
	}
	return best, found
}

// ---------------------------------------------------------------------------
// systems under test

type c05Sys struct {
	seam   string
	router *server.Router
	idx    map[*server.Route]int
	h      http.Handler
	stop   func()
}

func c05Source(t []c05Decl) string {
	var b strings.Builder
	for i, d := range t {
		fmt.Fprintf(&b, "@ %s %s {\n  > {r: %d", d.M, d.P, i)
		seen := map[string]bool{}
		for _, s := range c05PatSegs(d.P) {
			if strings.HasPrefix(s, ":") && !seen[s] {
				seen[s] = true
				fmt.Fprintf(&b, ", %s: %s", s[1:], s[1:])
			}
		}
		b.WriteString("}\n}\n\n")
	}
	return b.String()
}

// c05Build builds the system for a table; err != nil means the table is not a
// configuration this seam accepts (not judged).
func c05Build(seam string, t []c05Decl) (*c05Sys, error) {
	s := &c05Sys{seam: seam, stop: func() {}}
	if seam == "match" {
		s.router = server.NewRouter()
		s.idx = map[*server.Route]int{}
		for i, d := range t {
			r := &server.Route{Method: server.HTTPMethod(d.M), Path: d.P}
			if err := s.router.RegisterRoute(r); err != nil {
				return nil, err
			}
			s.idx[r] = i
		}
		return s, nil
	}
	module, err := parseSource(c05Source(t))
	if err != nil {
		return nil, fmt.Errorf("parse: %w", err)
	}
	// what startServer does, minus ListenAndServe
	useCompiler, _, wsServer, router, err := setupRoutes(module, "/nonexistent/c05.glyph", seam == "interpreted")
	if wsServer != nil {
		s.stop = func() { runtime.Gosched(); wsServer.Shutdown() }
	}
	if err != nil {
		s.stop()
		return nil, err
	}
	if useCompiler != (seam == "compiled") {
		s.stop()
		return nil, fmt.Errorf("mode is not %s", seam)
	}
	mux := http.NewServeMux()
	mux.HandleFunc("/", createHandler(router))
	if err := registerStaticRoutes(mux, module, "/nonexistent/c05.glyph", 0); err != nil {
		s.stop()
		return nil, err
	}
	s.h = loggingMiddleware(mux)
	return s, nil
}

type c05Obs struct {
	Status int
	R      int // marker's declaration index; -1 no marker; -2 unreadable marker
	Params map[string]string
	Loc    string
	Panic  string
	Body   string
}

func (o c05Obs) String() string {
	if o.Panic != "" {
		return "panic: " + o.Panic
	}
	if o.R == -1 {
		if o.Loc != "" {
			return fmt.Sprintf("status %d -> %s, nothing ran", o.Status, o.Loc)
		}
		return fmt.Sprintf("status %d, nothing ran", o.Status)
	}
	var ks []string
	for k := range o.Params {
		ks = append(ks, k)
	}
	sort.Strings(ks)
	var b []string
	for _, k := range ks {
		b = append(b, k+"="+o.Params[k])
	}
	return fmt.Sprintf("status %d, body of declaration #%d ran {%s}", o.Status, o.R, strings.Join(b, ","))
}

// c05MatchPath is what the match seam hands to Router.Match: the decoded
// segments joined by "/" (what createHandler passes: URL.Path).  ok=false if a
// decoded segment contains "/" (not expressible at this seam).
func c05MatchPath(raw string) (string, bool) {
	if strings.Contains(raw, "?") {
		return "", false // createHandler hands Match the path only
	}
	segs := c05RawSegs(raw)
	for _, s := range segs {
		if strings.Contains(s, "/") {
			return "", false
		}
	}
	return "/" + strings.Join(segs, "/"), true
}

func (s *c05Sys) request(method, raw string) (o c05Obs) {
	o.R = -1
	o.Params = map[string]string{}
	defer func() {
		if p := recover(); p != nil {
			o.Panic = fmt.Sprint(p)
		}
	}()
	if s.seam == "match" {
		path, _ := c05MatchPath(raw)
		route, params, err := s.router.Match(server.HTTPMethod(method), path)
		if err != nil || route == nil {
			o.Status = 404
			return
		}
		o.Status = 200
		i, ok := s.idx[route]
		if !ok {
			i = -2
		}
		o.R = i
		for k, v := range params {
			o.Params[k] = v
		}
		return
	}
	rec := httptest.NewRecorder()
	s.h.ServeHTTP(rec, c05NewRequest(method, raw))
	o.Status = rec.Code
	o.Loc = rec.Header().Get("Location")
	o.Body = rec.Body.String()
	var vals []any
	var one any
	if err := json.Unmarshal(rec.Body.Bytes(), &one); err == nil {
		vals = append(vals, one)
	} else {
		// not exactly one JSON value: read as many as there are
		dec := json.NewDecoder(strings.NewReader(o.Body))
		for {
			var v any
			if err := dec.Decode(&v); err != nil {
				break
			}
			vals = append(vals, v)
		}
	}
	for _, v := range vals {
		m, ok := v.(map[string]any)
		if !ok {
			continue
		}
		if r, ok := m["r"]; ok && o.R == -1 {
			if f, ok := r.(float64); ok && f == float64(int(f)) {
				o.R = int(f)
			} else {
				o.R = -2
			}
			for k, pv := range m {
				if k == "r" {
					continue
				}
				if sv, ok := pv.(string); ok {
					o.Params[k] = sv
				} else {
					o.Params[k] = fmt.Sprintf("<non-string %v>", pv)
				}
			}
		}
	}
	if o.R == -1 && strings.Contains(o.Body, `"r":`) {
		o.R = -2
	}
	return
}

// c05NewRequest builds the server-side request object for a request line
// "<method> <raw> HTTP/1.1" the way net/http's server does (ReadRequest parses
// the target with url.ParseRequestURI); c05CheckRequests compares it with
// httptest.NewRequest once per path.  (httptest.NewRequest itself costs a 4 KB
// bufio buffer per call, a third of the run time.)
var c05URLs = map[string]*url.URL{}

func c05NewRequest(method, raw string) *http.Request {
	u := c05URLs[raw]
	if u == nil {
		var err error
		if u, err = url.ParseRequestURI(raw); err != nil {
			panic(err)
		}
		c05URLs[raw] = u
	}
	uu := *u
	return &http.Request{Method: method, URL: &uu, Proto: "HTTP/1.1", ProtoMajor: 1, ProtoMinor: 1,
		Header: http.Header{}, Body: http.NoBody, Host: "example.com", RequestURI: raw, RemoteAddr: "192.0.2.1:1234"}
}

func c05CheckRequests(paths []string) error {
	for _, raw := range paths {
		a, b := httptest.NewRequest("GET", raw, nil), c05NewRequest("GET", raw)
		if a.URL.Path != b.URL.Path || a.URL.RawPath != b.URL.RawPath || a.URL.RawQuery != b.URL.RawQuery ||
			a.URL.EscapedPath() != b.URL.EscapedPath() || a.RequestURI != b.RequestURI || a.Host != b.Host {
			return fmt.Errorf("request construction differs from httptest.NewRequest for %q", raw)
		}
	}
	return nil
}

// ---------------------------------------------------------------------------
// judging

func c05Conforms(t []c05Decl, e c05Expect, o c05Obs) bool {
	if e.Idx < 0 {
		want := 404
		if e.Status != 0 {
			want = e.Status
		}
		return o.Status == want && o.R == -1
	}
	if o.R != e.Idx {
		return false
	}
	for name, vals := range e.Bind {
		got, ok := o.Params[name]
		if !ok {
			return false
		}
		okv := false
		for _, v := range vals {
			if v == got {
				okv = true
			}
		}
		if !okv {
			return false
		}
	}
	for name := range o.Params {
		if _, ok := e.Bind[name]; !ok {
			return false
		}
	}
	return true
}

// c05Judge returns "" if the observation is allowed, otherwise the failure kind.
func c05Judge(c c05Case, o c05Obs) (kind string, exp []c05Expect, matching int) {
	exp, matching = c05Expected(c.Table, c.Method, c.Path)
	if o.Panic != "" {
		return "panic", exp, matching
	}
	if c.Seam != "match" && o.Status >= 300 && o.Status < 400 && o.R == -1 && strings.Contains(c.Path, "//") {
		// http.ServeMux canonicalises doubled slashes by a redirect that runs
		// nothing; the target path is an enumerated request of its own.
		return "", exp, matching
	}
	for _, e := range exp {
		if c05Conforms(c.Table, e, o) {
			return "", exp, matching
		}
	}
	if len(exp) > 1 {
		return fmt.Sprintf("empty-segment-unexplained/status-%d", o.Status), exp, matching
	}
	e := exp[0]
	switch {
	case e.Idx < 0 && o.R != -1:
		return "body-ran-on-no-match", exp, matching
	case e.Idx < 0:
		return fmt.Sprintf("no-match-answered-%d", o.Status), exp, matching
	case o.R == -1:
		return fmt.Sprintf("declared-route-answered-%d", o.Status), exp, matching
	case o.R != e.Idx:
		return "wrong-body", exp, matching
	default:
		return "wrong-binding", exp, matching
	}
}

// c05Run builds the system for the case's table and runs its one request.
func c05Run(c c05Case) (kind string, o c05Obs, exp []c05Expect, built bool) {
	s, err := c05Build(c.Seam, c.Table)
	if err != nil {
		return "", o, nil, false
	}
	defer s.stop()
	if c.Seam == "match" {
		if _, ok := c05MatchPath(c.Path); !ok {
			return "", o, nil, false
		}
	}
	o = s.request(c.Method, c.Path)
	kind, exp, _ = c05Judge(c, o)
	return kind, o, exp, true
}

// ---------------------------------------------------------------------------
// shrinking and finding keys

func c05Shrink(c c05Case, sig string) c05Case {
	same := func(cand c05Case) bool {
		k, o, _, built := c05Run(cand)
		if !built || k == "" {
			return false
		}
		cs := c05Sig(cand, k, o)
		if cs == sig {
			return true
		}
		// a failure on a path with empty segments may become the definite
		// failure it contains (same attribution), never the other way round
		if strings.HasPrefix(sig, "empty-segment-unexplained") && !strings.HasPrefix(cs, "empty-segment-unexplained") &&
			sig[strings.Index(sig, "|"):] == cs[strings.Index(cs, "|"):] {
			sig = cs
			return true
		}
		return false
	}
	for changed := true; changed; {
		changed = false
		// drop a declaration
		for i := 0; i < len(c.Table) && len(c.Table) > 1; i++ {
			cand := c
			cand.Table = append(append([]c05Decl{}, c.Table[:i]...), c.Table[i+1:]...)
			if same(cand) {
				c, changed = cand, true
				i--
			}
		}
		// drop segment position j from the request and from every pattern long enough
		query := ""
		if q := strings.Index(c.Path, "?"); q >= 0 {
			cand := c
			cand.Path, query = c.Path[:q], c.Path[q:]
			if same(cand) {
				c, changed, query = cand, true, ""
			}
		}
		rs := strings.Split(strings.TrimPrefix(strings.TrimSuffix(c.Path, query), "/"), "/")
		for j := 0; j < len(rs) && len(rs) > 1; j++ {
			cand := c
			nr := append(append([]string{}, rs[:j]...), rs[j+1:]...)
			cand.Path = "/" + strings.Join(nr, "/") + query
			cand.Table = nil
			ok := true
			for _, d := range c.Table {
				ps := c05PatSegs(d.P)
				if len(ps) > j {
					ps = append(append([]string{}, ps[:j]...), ps[j+1:]...)
				}
				if len(ps) == 0 {
					ok = false
					break
				}
				cand.Table = append(cand.Table, c05Decl{d.M, "/" + strings.Join(ps, "/")})
			}
			if ok && same(cand) {
				c, changed = cand, true
				break
			}
		}
		// simplify request segments and methods
		rs = strings.Split(strings.TrimPrefix(strings.TrimSuffix(c.Path, query), "/"), "/")
		for j := range rs {
			for _, simple := range []string{"a", "A"} {
				if rs[j] == simple || rs[j] == "a" {
					continue
				}
				nr := append([]string{}, rs...)
				nr[j] = simple
				cand := c
				cand.Path = "/" + strings.Join(nr, "/") + query
				if same(cand) {
					c, changed = cand, true
					rs = nr
				}
			}
		}
		if c.Method != "GET" {
			cand := c
			cand.Method = "GET"
			if same(cand) {
				c, changed = cand, true
			}
		}
	}
	return c
}

// c05Canon renders table and request under the renaming (a<->b, x<->y,
// GET<->POST) that gives the smallest string, so symmetric cases share a key.
func c05Canon(c c05Case) string {
	best := ""
	for mask := 0; mask < 8; mask++ {
		seg := func(s string) string {
			switch {
			case mask&1 != 0 && s == "a":
				return "b"
			case mask&1 != 0 && s == "b":
				return "a"
			case mask&2 != 0 && s == ":x":
				return ":y"
			case mask&2 != 0 && s == ":y":
				return ":x"
			}
			return s
		}
		meth := func(m string) string {
			switch {
			case mask&4 != 0 && m == "GET":
				return "POST"
			case mask&4 != 0 && m == "POST":
				return "GET"
			}
			return m
		}
		path := func(p string) string {
			ss := strings.Split(strings.TrimPrefix(p, "/"), "/")
			for i := range ss {
				ss[i] = seg(ss[i])
			}
			return "/" + strings.Join(ss, "/")
		}
		var ds []string
		for _, d := range c.Table {
			ds = append(ds, meth(d.M)+" "+path(d.P))
		}
		s := strings.Join(ds, ";") + " <- " + meth(c.Method) + " " + path(c.Path)
		if best == "" || s < best {
			best = s
		}
	}
	return best
}

// c05Finding files a failing case: under the modelled defect(s) that predict
// the observed response exactly, otherwise under failure kind + canonical shape.
func c05Finding(c c05Case, kind string, o c05Obs, exp []c05Expect) (key, desc string) {
	var es []string
	for _, e := range exp {
		es = append(es, e.String())
	}
	desc = fmt.Sprintf("%s: %s; observed %s; the declarations allow only: %s", kind, c, o, strings.Join(es, " / "))
	if f, ok := c05Attribute(c, o); ok {
		return c.Seam + "/cause:" + f.String(), desc + " (the response is exactly what the reference predicts once it is given the deviation(s) " + f.String() + ")"
	}
	return c.Seam + "/" + kind + "/" + c05Canon(c), desc
}

// signature a shrink step must preserve: failure kind and attribution
func c05Sig(c c05Case, kind string, o c05Obs) string {
	f, _ := c05Attribute(c, o)
	return kind + "|" + f.String()
}

// ---------------------------------------------------------------------------

func c05Quiet() {
	log.SetOutput(io.Discard)
	color.Output = io.Discard
	if f, err := os.OpenFile(os.DevNull, os.O_WRONLY, 0); err == nil {
		os.Stdout = f
	}
}

const c05MaxShrinks = 400 // per shard; later failures are filed unshrunk
const c05MaxShapeKeys = 6 // per shard

func TestVerif_C05(t *testing.T) {
	p := vk.Env()
	stdout := os.Stdout
	c05Quiet()
	res := vk.NewResult("every route table (ordered list of (GET|POST, pattern) declarations, duplicates allowed, patterns = words over {a, b, :x, :y}) x every request (method in GET/POST/PUT/HEAD, raw path = word of length <= 2 over {a, b, A, %61, %2561, a%2Fb, a%3Fb, empty}, of length 3 over {a, b, A, a%2Fb, a%3Fb, empty} ({a, b, A, empty} for the 3-declaration family), of length 4 over {a, b, empty} when patterns reach 3 segments - which covers the root, trailing and doubled slashes - plus 12 short paths carrying a query string ?x=b&y=A) through Router.Match, the compiled-mode CLI handler and the interpreted-mode CLI handler; an evaluation is one (seam, table, request); it is non-trivial if some declaration of the table matches the request's method and path under the reference, distinct by (seam, table, request)")
	if p.Replay != "" {
		var c c05Case
		if err := vk.LoadReplay(p.Replay, &c); err != nil {
			t.Fatal(err)
		}
		kind, o, exp, built := c05Run(c)
		fmt.Fprintf(stdout, "replay %s -> built=%v kind=%q observed: %s\n", c, built, kind, o)
		ok := built && kind != ""
		if ok {
			key, desc := c05Finding(c, kind, o, exp)
			res.Violate(key, desc, c)
		}
		res.Replayed = &ok
		res.Write(p)
		return
	}
	fams := c05Families(p.Thorough)
	item := 0
	var famNames []string
	seenKey := map[string]bool{}
	shrinks, notes, shapes := 0, 0, 0
	for _, fam := range fams {
		famNames = append(famNames, fmt.Sprintf("%s:%d tables", fam.name, fam.count()))
		paths := c05Paths(fam)
		if err := c05CheckRequests(paths); err != nil {
			t.Fatal(err)
		}
		res.Bounds["requests_per_table_"+fam.name] = len(paths) * len(c05Methods)
		n := fam.count()
		for ti := 0; ti < n; ti++ {
			item++
			if !p.Mine(item) {
				continue
			}
			if p.Expired() {
				res.Exhaustive = false
				break
			}
			table := fam.table(ti)
			res.Count("tables", 1)
			for _, seam := range c05Seams {
				s, err := c05Build(seam, table)
				if err != nil {
					res.Count("tables_not_accepted_"+seam, 1)
					if notes++; notes <= 3 {
						res.Note("table not accepted by %s: %v: %v", seam, table, err)
					}
					continue
				}
				for _, m := range c05Methods {
					for _, path := range paths {
						if seam == "match" {
							if _, ok := c05MatchPath(path); !ok {
								continue
							}
						}
						c := c05Case{Seam: seam, Table: table, Method: m, Path: path}
						o := s.request(m, path)
						kind, exp, matching := c05Judge(c, o)
						res.Evaluations++
						if matching > 0 {
							res.Distinct++
						}
						if matching > 1 {
							res.Count("requests_matching_several_declarations", 1)
						}
						if o.Status >= 300 && o.Status < 400 {
							res.Count("mux_redirects", 1)
						}
						if kind == "" {
							if matching > 1 && o.R >= 0 && res.Evaluations%1009 == 0 {
								res.Sample(4, map[string]any{"case": c.String(), "observed": o.String()})
							}
							continue
						}
						res.Count("failing_evaluations", 1)
						key, desc := c05Finding(c, kind, o, exp)
						attributed := strings.Contains(key, "/cause:")
						if attributed {
							res.Count("failing:"+key, 1)
							if seenKey[key] {
								continue
							}
						} else {
							res.Count("failing:"+seam+"/"+kind+" (not attributed to a modelled defect)", 1)
						}
						if shrinks >= c05MaxShrinks {
							// too many failures to minimise each: the rest is filed
							// (never dropped) under one key per seam and kind
							if !attributed {
								key = seam + "/" + kind + "/not-minimised (more than " + fmt.Sprint(c05MaxShrinks) + " failing cases in one shard)"
							}
							res.Violate(key, desc, c)
							continue
						}
						shrinks++
						mc := c05Shrink(c, c05Sig(c, kind, o))
						k2, o2, exp2, _ := c05Run(mc)
						key2, desc2 := c05Finding(mc, k2, o2, exp2)
						if !seenKey[key2] && !strings.Contains(key2, "/cause:") {
							// keep the report readable: a defect that is not modelled
							// shows up in many shapes; the first few per shard get their
							// own key, the rest share one per seam and kind
							if shapes++; shapes > c05MaxShapeKeys {
								key2 = seam + "/" + k2 + "/further-shapes (more than " + fmt.Sprint(c05MaxShapeKeys) + " distinct minimal cases in one shard)"
							}
						}
						seenKey[key2] = true
						res.Violate(key2, desc2, mc)
					}
				}
				s.stop()
			}
		}
	}
	res.Bounds["table_families"] = famNames
	res.Bounds["pattern_alphabet"] = c05PatAlpha
	res.Bounds["request_segment_alphabet"] = c05ReqAlpha
	res.Bounds["request_methods"] = c05Methods
	res.Bounds["seams"] = c05Seams
	res.Write(p)
}
