package websocket

// Verification harness for C16 (WebSocket rooms stay consistent under
// concurrency).  pkg/websocket is fully instrumented: the real Hub.Run loop is
// one controlled thread, client/route/handler operations are issued from other
// controlled threads, and every interleaving up to the preemption bound —
// including every choice of the hub loop's select among ready channels — is
// executed.  Connections are real *Connection values around a gorilla
// *websocket.Conn obtained from Upgrader.Upgrade over an in-memory net.Conn.

import (
	"bufio"
	"bytes"
	"encoding/json"
	"fmt"
	"io"
	"log"
	"net"
	"net/http"
	"net/http/httptest"
	"sort"
	"strings"
	"testing"
	"time"

	gws "github.com/gorilla/websocket"

	"github.com/glyphlang/glyph/internal/verif/vk"
	"github.com/glyphlang/glyph/internal/verif/vrt"
)

// ---- in-memory net.Conn -----------------------------------------------------

type c16NetConn struct {
	closed bool
	wrote  bytes.Buffer
}

func (c *c16NetConn) Read(b []byte) (int, error)         { return 0, io.EOF }
func (c *c16NetConn) Write(b []byte) (int, error)        { c.wrote.Write(b); return len(b), nil }
func (c *c16NetConn) Close() error                       { c.closed = true; return nil }
func (c *c16NetConn) LocalAddr() net.Addr                { return &net.TCPAddr{} }
func (c *c16NetConn) RemoteAddr() net.Addr               { return &net.TCPAddr{} }
func (c *c16NetConn) SetDeadline(t time.Time) error      { return nil }
func (c *c16NetConn) SetReadDeadline(t time.Time) error  { return nil }
func (c *c16NetConn) SetWriteDeadline(t time.Time) error { return nil }

type c16Hijack struct {
	*httptest.ResponseRecorder
	nc *c16NetConn
}

func (h *c16Hijack) Hijack() (net.Conn, *bufio.ReadWriter, error) {
	return h.nc, bufio.NewReadWriter(bufio.NewReader(h.nc), bufio.NewWriter(h.nc)), nil
}

func c16NewWSConn() (*gws.Conn, *c16NetConn) {
	nc := &c16NetConn{}
	req := httptest.NewRequest("GET", "/ws", nil)
	req.Header.Set("Connection", "Upgrade")
	req.Header.Set("Upgrade", "websocket")
	req.Header.Set("Sec-WebSocket-Version", "13")
	req.Header.Set("Sec-WebSocket-Key", "dGhlIHNhbXBsZSBub25jZQ==")
	up := gws.Upgrader{CheckOrigin: func(*http.Request) bool { return true }}
	conn, err := up.Upgrade(&c16Hijack{httptest.NewRecorder(), nc}, req, nil)
	if err != nil {
		panic("c16: cannot build websocket.Conn: " + err.Error())
	}
	return conn, nc
}

// ---- scenarios --------------------------------------------------------------

type c16Op struct {
	K string `json:"k"`           // reg unreg close join leave send bcast bcastroom mjoin mleave mbcastroom mbcast mev
	C int    `json:"c"`           // connection index
	R string `json:"r,omitempty"` // room
	H string `json:"h,omitempty"` // mev: what the custom event handler does (close join leave send bcast bcastroom)
}

func (o c16Op) String() string {
	s := fmt.Sprintf("%s(c%d", o.K, o.C)
	if o.R != "" {
		s += "," + o.R
	}
	if o.H != "" {
		s += ",handler=" + o.H
	}
	return s + ")"
}

type c16Cfg struct {
	HubLimit  int           `json:"hub_limit"`
	RoomLimit int           `json:"room_limit"`
	Queue     int           `json:"queue"`
	Strategy  QueueStrategy `json:"strategy"`
}

type c16Scenario struct {
	Name    string    `json:"name"`
	Cfg     c16Cfg    `json:"cfg"`
	Conns   int       `json:"conns"`
	Setup   []c16Op   `json:"setup"`
	Threads [][]c16Op `json:"threads"`
}

type c16Event struct {
	op         c16Op
	start, end int
	msg        string // payload tag for sends/broadcasts
}

type c16Run struct {
	sc     c16Scenario
	hub    *Hub
	conns  []*Connection
	ncs    []*c16NetConn
	clock  int
	events []*c16Event
	seq    int
	fail   string
	got    map[int][]string // drained payloads per connection
	// early: what a connection had received when its own LeaveRoom returned (the client reads its queue at that
	// moment); leftAt: rooms it has left by a direct LeaveRoom that returned, with the logical time of the return
	early  map[int][]string
	leftAt map[int]map[string]int
}

func (r *c16Run) tick() int { r.clock++; return r.clock }

// do performs one operation from the calling thread.
func (r *c16Run) do(o c16Op) {
	ev := &c16Event{op: o, start: r.tick()}
	r.events = append(r.events, ev)
	c := r.conns[o.C]
	h := r.hub
	r.seq++
	tag := fmt.Sprintf("%d", r.seq)
	switch o.K {
	case "reg":
		vrt.Send(h.register, c)
	case "unreg":
		// what ReadPump's exit path does
		vrt.Send(h.unregister, c)
		c.conn.Close()
	case "close":
		c.Close()
	case "join":
		c.JoinRoom(o.R)
	case "leave":
		c.LeaveRoom(o.R)
		// The client reads everything queued so far: whatever arrives for this room from now on was delivered to
		// a connection that is not a member (unless it joins again).
		if r.early == nil {
			r.early, r.leftAt = map[int][]string{}, map[int]map[string]int{}
		}
		for n := 0; n < 1000; n++ {
			idx, v, ok := vrt.Select(true, vrt.RecvCase(c.send))
			if idx < 0 || !ok {
				break
			}
			r.early[o.C] = append(r.early[o.C], string(vrt.Cast(c.send, v)))
		}
		if r.leftAt[o.C] == nil {
			r.leftAt[o.C] = map[string]int{}
		}
		r.leftAt[o.C][o.R] = r.tick()
	case "send":
		ev.msg = "S:" + c.ID + ":" + tag
		c.Send([]byte(ev.msg))
	case "bcast":
		ev.msg = "B:" + tag
		h.Broadcast([]byte(ev.msg))
	case "bcastroom":
		ev.msg = "R:" + o.R + ":" + tag
		h.BroadcastToRoom(o.R, []byte(ev.msg), nil)
	case "mjoin":
		vrt.Send(h.handleMessage, &MessageContext{Conn: c, Message: &Message{Type: MessageTypeJoinRoom, Room: o.R, ConnectionID: c.ID}})
	case "mleave":
		vrt.Send(h.handleMessage, &MessageContext{Conn: c, Message: &Message{Type: MessageTypeLeaveRoom, Room: o.R, ConnectionID: c.ID}})
	case "mbcastroom":
		vrt.Send(h.handleMessage, &MessageContext{Conn: c, Message: &Message{Type: MessageTypeBroadcast, Room: o.R, Data: "mr" + tag, ConnectionID: c.ID}})
	case "mbcast":
		vrt.Send(h.handleMessage, &MessageContext{Conn: c, Message: &Message{Type: MessageTypeBroadcast, Data: "mb" + tag, ConnectionID: c.ID}})
	case "count":
		_ = h.GetConnectionCount()
		_ = len(h.GetConnections())
	case "stats":
		vs := NewVMStatsHandler(h)
		_ = vs.GetRooms()
		_ = vs.GetRoomClients(o.R)
		_ = c.GetRooms()
		_ = c.IsInRoom(o.R)
	case "mev":
		vrt.Send(h.handleMessage, &MessageContext{Conn: c, Message: &Message{Type: MessageTypeJSON, Event: "ev:" + o.H + ":" + o.R, ConnectionID: c.ID}})
	default:
		panic("unknown op " + o.K)
	}
	ev.end = r.tick()
}

// body is one controlled execution of the scenario.
func (r *c16Run) body() {
	sc := r.sc
	cfg := DefaultConfig()
	cfg.MaxConnectionsPerHub = sc.Cfg.HubLimit
	cfg.MaxConnectionsPerRoom = sc.Cfg.RoomLimit
	cfg.MessageQueueSize = sc.Cfg.Queue
	cfg.MessageQueueStrategy = sc.Cfg.Strategy
	cfg.EnableReconnection = false
	h := NewHubWithConfig(cfg)
	r.hub = h
	// custom event handlers run inside the hub goroutine, like compiled ws routes
	for _, hop := range []string{"close", "join", "leave", "send", "bcast", "bcastroom"} {
		for _, room := range []string{"", "r", "q"} {
			hop, room := hop, room
			h.OnEvent("ev:"+hop+":"+room, func(ctx *MessageContext) error {
				vh := NewVMHandler(ctx.Conn, h)
				switch hop {
				case "close":
					return vh.Close("")
				case "join":
					return vh.JoinRoom(room)
				case "leave":
					return vh.LeaveRoom(room)
				case "send":
					return vh.Send("hs")
				case "bcast":
					return vh.Broadcast("hb")
				case "bcastroom":
					return vh.BroadcastToRoom(room, "hr:"+room)
				}
				return nil
			})
		}
	}
	for i := 0; i < sc.Conns; i++ {
		wc, nc := c16NewWSConn()
		r.conns = append(r.conns, NewConnection(fmt.Sprintf("c%d", i), wc, h))
		r.ncs = append(r.ncs, nc)
	}
	hubT := vrt.Spawn(h.Run)
	vrt.Recv(h.started)
	for _, o := range sc.Setup {
		r.do(o)
		vrt.WaitIdle()
	}
	var fs []func()
	for _, th := range sc.Threads {
		th := th
		fs = append(fs, func() {
			for _, o := range th {
				r.do(o)
			}
		})
	}
	vrt.Parallel(fs...)
	vrt.WaitIdle()
	r.checkQuiescent()
	h.Shutdown()
	hubT.Join()
}

func sortedStrings(m map[string]bool) []string {
	var s []string
	for k, v := range m {
		if v {
			s = append(s, k)
		}
	}
	sort.Strings(s)
	return s
}

// checkQuiescent evaluates the invariants with every thread idle.
func (r *c16Run) checkQuiescent() {
	h := r.hub
	set := func(f string, a ...any) {
		if r.fail == "" {
			r.fail = fmt.Sprintf(f, a...)
		}
	}
	registered := map[*Connection]bool{}
	for c := range h.connections {
		registered[c] = true
	}
	if r.sc.Cfg.HubLimit > 0 && len(registered) > r.sc.Cfg.HubLimit {
		set("limit: %d registered connections exceed the hub limit %d", len(registered), r.sc.Cfg.HubLimit)
	}
	roomNames := make([]string, 0)
	for n := range h.roomManager.rooms {
		roomNames = append(roomNames, n)
	}
	sort.Strings(roomNames)
	inRooms := map[*Connection]map[string]bool{}
	for _, n := range roomNames {
		room := h.roomManager.rooms[n]
		if r.sc.Cfg.RoomLimit > 0 && len(room.connections) > r.sc.Cfg.RoomLimit {
			set("limit: room %s holds %d connections, limit %d", n, len(room.connections), r.sc.Cfg.RoomLimit)
		}
		for _, c := range r.conns {
			if !room.connections[c] {
				continue
			}
			if inRooms[c] == nil {
				inRooms[c] = map[string]bool{}
			}
			inRooms[c][n] = true
			if !registered[c] {
				// only for connections whose registration cannot have been rejected
				if r.everRegistered(c) && (r.sc.Cfg.HubLimit == 0 || r.sc.Cfg.HubLimit >= r.sc.Conns) {
					set("membership: disconnected connection %s is still a member of room %s", c.ID, n)
				}
			}
		}
	}
	for _, c := range r.conns {
		if !registered[c] {
			continue
		}
		own := strings.Join(sortedStrings(c.rooms), ",")
		real := strings.Join(sortedStrings(inRooms[c]), ",")
		if own != real {
			set("own-view: connection %s believes it is in rooms [%s] but the rooms that contain it are [%s]", c.ID, own, real)
		}
	}
	// drain queues
	r.got = map[int][]string{}
	for i, c := range r.conns {
		for n := 0; n < 1000; n++ {
			idx, v, ok := vrt.Select(true, vrt.RecvCase(c.send))
			if idx < 0 || !ok {
				break
			}
			r.got[i] = append(r.got[i], string(vrt.Cast(c.send, v)))
		}
	}
	for i, msgs := range r.got {
		c := r.conns[i]
		for _, m := range msgs {
			if bad := r.judgeDelivery(c, m); bad != "" {
				set("delivery: %s", bad)
			}
			// strict clause: queued after the connection's own LeaveRoom had returned (and no join of that
			// room by the connection was invoked afterwards)
			if strings.HasPrefix(m, "R:") {
				room := strings.SplitN(m, ":", 3)[1]
				if t, left := r.leftAt[i][room]; left {
					rejoined := false
					for _, e := range r.events {
						if (e.op.K == "join" || e.op.K == "mjoin" || (e.op.K == "mev" && e.op.H == "join")) && e.op.C == i && e.op.R == room && (e.start > t || e.end == 0 || e.end > t) {
							rejoined = true
						}
					}
					if !rejoined {
						set("delivery-after-leave: %s received room message %q after its LeaveRoom(%s) had returned", c.ID, m, room)
					}
				}
			}
		}
	}
	for i, msgs := range r.early {
		c := r.conns[i]
		for _, m := range msgs {
			if bad := r.judgeDelivery(c, m); bad != "" {
				set("delivery: %s", bad)
			}
		}
		r.got[i] = append(append([]string{}, msgs...), r.got[i]...)
	}
}

func (r *c16Run) everRegistered(c *Connection) bool {
	for _, e := range r.events {
		if e.op.K == "reg" && r.conns[e.op.C] == c {
			return true
		}
	}
	return false
}

// possiblyMember: could c have been a member of room at or after time t?
// (lenient: a join counts from its invocation, a leave only once it returned
// — leaves processed by the hub loop never count)
func (r *c16Run) possiblyMember(ci int, room string, t int) bool {
	for _, j := range r.events {
		isJoin := (j.op.K == "join" || j.op.K == "mjoin" || (j.op.K == "mev" && j.op.H == "join")) && j.op.C == ci && j.op.R == room
		if !isJoin {
			continue
		}
		// is there a direct leave that started after this join returned and returned before t, with no later join?
		left := false
		for _, l := range r.events {
			if l.op.K == "leave" && l.op.C == ci && l.op.R == room && j.op.K == "join" && l.start > j.end && l.end != 0 && l.end < t {
				left = true
				// a later join revives membership
				for _, j2 := range r.events {
					if (j2.op.K == "join" || j2.op.K == "mjoin" || j2.op.K == "mev") && j2.op.C == ci && j2.op.R == room && j2.start > l.start {
						left = false
					}
				}
			}
		}
		if !left {
			return true
		}
	}
	return false
}

func (r *c16Run) judgeDelivery(c *Connection, m string) string {
	ci := -1
	for i, x := range r.conns {
		if x == c {
			ci = i
		}
	}
	switch {
	case strings.HasPrefix(m, "S:"):
		parts := strings.SplitN(m, ":", 3)
		if parts[1] != c.ID {
			return fmt.Sprintf("%s received %q addressed to %s", c.ID, m, parts[1])
		}
	case strings.HasPrefix(m, "B:"):
	case strings.HasPrefix(m, "R:"):
		parts := strings.SplitN(m, ":", 3)
		var ev *c16Event
		for _, e := range r.events {
			if e.msg == m {
				ev = e
			}
		}
		if ev != nil && !r.possiblyMember(ci, parts[1], ev.start) {
			return fmt.Sprintf("%s received room message %q although it was not a member of room %s when it was sent", c.ID, m, parts[1])
		}
	default:
		var msg Message
		if json.Unmarshal([]byte(m), &msg) != nil {
			if strings.HasPrefix(m, `"hr:`) {
				room := strings.TrimSuffix(strings.TrimPrefix(m, `"hr:`), `"`)
				if !r.possiblyMember(ci, room, 0) {
					return fmt.Sprintf("%s received handler room message %s without ever joining %s", c.ID, m, room)
				}
			}
			return ""
		}
		if msg.Target != "" && msg.Target != c.ID {
			return fmt.Sprintf("%s received a reply addressed to %s", c.ID, msg.Target)
		}
		if msg.Room != "" && msg.Type == MessageTypeJSON && msg.Target == "" && !r.possiblyMember(ci, msg.Room, 0) {
			return fmt.Sprintf("%s received a room broadcast for %s without ever joining it", c.ID, msg.Room)
		}
	}
	return ""
}

// ---- scenario sets ----------------------------------------------------------

func c16Scenarios(thorough bool) []c16Scenario {
	reg := func(c int) c16Op { return c16Op{K: "reg", C: c} }
	join := func(c int, r string) c16Op { return c16Op{K: "join", C: c, R: r} }
	d := c16Cfg{HubLimit: 2, RoomLimit: 2, Queue: 2, Strategy: QueueStrategyDropOldest}
	out := []c16Scenario{
		{"room-full-join", c16Cfg{2, 1, 2, QueueStrategyDropOldest}, 2, []c16Op{reg(0), reg(1), join(0, "r")}, [][]c16Op{{join(1, "r")}, {{K: "bcastroom", C: 0, R: "r"}}}},
		{"join-race-room-limit", c16Cfg{3, 1, 2, QueueStrategyDropOldest}, 2, []c16Op{reg(0), reg(1)}, [][]c16Op{{join(0, "r")}, {join(1, "r")}}},
		{"mjoin-vs-unregister", d, 2, []c16Op{reg(0), reg(1), join(1, "r")}, [][]c16Op{{{K: "mjoin", C: 0, R: "r"}, {K: "unreg", C: 0}}, {{K: "bcastroom", C: 1, R: "r"}}}},
		{"send-vs-unregister", d, 1, []c16Op{reg(0)}, [][]c16Op{{{K: "send", C: 0}}, {{K: "unreg", C: 0}}}},
		{"handler-closes-connection", d, 1, []c16Op{reg(0)}, [][]c16Op{{{K: "mev", C: 0, H: "close"}}}},
		{"register-over-hub-limit", c16Cfg{1, 2, 2, QueueStrategyDropOldest}, 2, nil, [][]c16Op{{reg(0), join(0, "r")}, {reg(1), join(1, "r")}}},
		{"broadcast-full-queue-vs-unregister", c16Cfg{2, 2, 1, QueueStrategyDropOldest}, 2, []c16Op{reg(0), reg(1), {K: "send", C: 0}}, [][]c16Op{{{K: "bcast", C: 1}}, {{K: "unreg", C: 0}}}},
		{"leave-vs-room-broadcast", d, 2, []c16Op{reg(0), reg(1), join(0, "r"), join(1, "r")}, [][]c16Op{{{K: "leave", C: 0, R: "r"}}, {{K: "bcastroom", C: 1, R: "r"}}, {{K: "bcastroom", C: 1, R: "q"}}}},
		{"two-rooms-cross-delivery", d, 2, []c16Op{reg(0), reg(1), join(0, "r"), join(1, "q")}, [][]c16Op{{{K: "bcastroom", C: 0, R: "r"}, {K: "mbcastroom", C: 0, R: "q"}}, {{K: "bcastroom", C: 1, R: "q"}, {K: "join", C: 1, R: "r"}}}},
		{"rejoin-full-room", c16Cfg{2, 1, 2, QueueStrategyDropOldest}, 2, []c16Op{reg(0), reg(1), join(0, "r")}, [][]c16Op{{join(0, "r")}, {join(1, "r"), {K: "leave", C: 1, R: "r"}}}},
		{"join-vs-unregister", d, 2, []c16Op{reg(0), reg(1), join(1, "r")}, [][]c16Op{{join(0, "r")}, {{K: "unreg", C: 0}}, {{K: "bcastroom", C: 1, R: "r"}}}},
		{"leave-vs-unregister", d, 1, []c16Op{reg(0), join(0, "r")}, [][]c16Op{{{K: "leave", C: 0, R: "r"}, join(0, "q")}, {{K: "close", C: 0}}}},
		{"count-vs-broadcast-overflow", c16Cfg{2, 2, 1, QueueStrategyDropOldest}, 2, []c16Op{reg(0), reg(1), {K: "send", C: 0}}, [][]c16Op{{{K: "bcast", C: 1}}, {{K: "count", C: 0}}}},
		{"stats-vs-join-leave", d, 2, []c16Op{reg(0), reg(1)}, [][]c16Op{{join(0, "r"), {K: "leave", C: 0, R: "r"}}, {{K: "stats", C: 0, R: "r"}}, {{K: "mjoin", C: 1, R: "r"}}}},
		{"double-close", d, 1, []c16Op{reg(0)}, [][]c16Op{{{K: "close", C: 0}}, {{K: "unreg", C: 0}}}},
	}
	// capacity: the hub's own channels are buffered at 256.  A path on which the hub goroutine (or a lock holder it waits
	// for) queues one item per connection into such a channel works for small hubs and blocks for ever once a single
	// event concerns more connections than the buffer holds.  300 connections whose send queues are full (slow
	// consumers), then one hub-wide broadcast and one room broadcast (a single client thread, so the
	// schedules differ only in where the hub loop is preempted; bound 1).
	{
		const n = 300
		big := c16Cfg{HubLimit: n + 10, RoomLimit: n + 10, Queue: 1, Strategy: QueueStrategyDropNewest}
		var setup, setupRoom []c16Op
		for i := 0; i < n; i++ {
			setup = append(setup, reg(i))
		}
		setupRoom = append(setupRoom, setup...)
		for i := 0; i < n; i++ {
			setupRoom = append(setupRoom, join(i, "r"))
		}
		for i := 0; i < n; i++ {
			setup = append(setup, c16Op{K: "send", C: i})
			setupRoom = append(setupRoom, c16Op{K: "send", C: i})
		}
		out = append(out,
			c16Scenario{"capacity/broadcast-to-300-slow-consumers", big, n, setup, [][]c16Op{{{K: "bcast", C: 0}, {K: "count", C: 0}}}},
			c16Scenario{"capacity/room-broadcast-to-300-slow-members", big, n, setupRoom, [][]c16Op{{{K: "bcastroom", C: 0, R: "r"}, {K: "count", C: 0}}}},
		)
	}
	// generated: two clients, each with a short program on its own connection,
	// plus the hub loop; from two setups.
	perConn := func(c int) []c16Op {
		return []c16Op{{K: "join", C: c, R: "r"}, {K: "leave", C: c, R: "r"}, {K: "send", C: c}, {K: "unreg", C: c},
			{K: "bcastroom", C: c, R: "r"}, {K: "mjoin", C: c, R: "r"}, {K: "mbcastroom", C: c, R: "r"}, {K: "mev", C: c, H: "send"}}
	}
	seqs := func(c int, maxLen int) [][]c16Op {
		a := perConn(c)
		var s [][]c16Op
		for _, x := range a {
			s = append(s, []c16Op{x})
		}
		if maxLen >= 2 {
			for _, x := range a {
				for _, y := range a {
					if x.K == "unreg" {
						continue // nothing follows a disconnect on the same connection here
					}
					s = append(s, []c16Op{x, y})
				}
			}
		}
		return s
	}
	l0, l1 := 1, 1
	if thorough {
		l0, l1 = 2, 2
	}
	setups := []struct {
		name string
		cfg  c16Cfg
		ops  []c16Op
	}{
		{"both-registered-roomlimit1", c16Cfg{2, 1, 1, QueueStrategyDropOldest}, []c16Op{reg(0), reg(1)}},
		{"c0-in-room", c16Cfg{2, 2, 2, QueueStrategyDropNewest}, []c16Op{reg(0), reg(1), join(0, "r")}},
	}
	for _, su := range setups {
		for _, a := range seqs(0, l0) {
			for _, b := range seqs(1, l1) {
				out = append(out, c16Scenario{fmt.Sprintf("gen/%s/%v||%v", su.name, a, b), su.cfg, 2, su.ops, [][]c16Op{a, b}})
			}
		}
	}
	return out
}

// ---- judging ---------------------------------------------------------------

func c16Kind(fail string) string {
	if i := strings.Index(fail, ":"); i > 0 {
		return fail[:i]
	}
	return fail
}

func c16Judge(x *vrt.Exec, r *c16Run) string {
	switch x.Outcome.Kind {
	case "ok":
	case "panic":
		d := x.Outcome.Detail
		if i := strings.Index(d, "\n"); i > 0 {
			d = d[:i]
		}
		return "panic: " + d
	case "deadlock":
		return "deadlock: " + x.Outcome.Detail
	default:
		return x.Outcome.Kind + ": " + x.Outcome.Detail
	}
	if r.fail != "" {
		return r.fail
	}
	if len(x.Races) > 0 {
		return "data race: " + x.Races[0]
	}
	return ""
}

// finding key: failure kind + normalised detail, independent of the scenario
// that exposed it (one defect shows up in many scenarios).
func c16Key(fail string) string {
	kind := c16Kind(fail)
	switch kind {
	case "panic":
		d := fail
		for _, s := range []string{"send on closed channel", "close of closed channel", "nil pointer", "concurrent map"} {
			if strings.Contains(d, s) {
				// which thread kind: hub loop or caller
				where := "caller"
				if strings.Contains(d, "T1(") {
					where = "hub-loop"
				}
				return "panic/" + s + "/" + where
			}
		}
		return "panic/other"
	case "deadlock":
		// blocked operation kinds, without thread ids
		var kinds []string
		for _, f := range strings.Fields(strings.TrimPrefix(fail, "deadlock: ")) {
			if i := strings.Index(f, ":"); i >= 0 {
				k := f[i+1:]
				if j := strings.Index(k, "#"); j >= 0 {
					k = k[:j]
				}
				name := f[strings.Index(f, "(")+1 : strings.Index(f, ")")]
				kinds = append(kinds, name+":"+k)
			}
		}
		sort.Strings(kinds)
		return "deadlock/" + strings.Join(kinds, ",")
	case "data race":
		return vrt.RaceKey(fail)
	case "own-view", "membership", "limit", "delivery":
		return kind
	}
	return kind
}

type c16Replay struct {
	Scenario c16Scenario `json:"scenario"`
	Choices  []int       `json:"choices"`
}

func c16Config(bound int, deadline time.Time) vrt.Config {
	return vrt.Config{MaxPreempt: bound, SelectCost: 0, Races: true, NoAtomicPoints: true, NoAutoTimers: true, Deadline: deadline, MaxSteps: 20000}
}

func TestVerif_C16(t *testing.T) {
	log.SetOutput(io.Discard)
	p := vk.Env()
	res := vk.NewResult("all schedules (thread interleavings up to the preemption bound; every choice among ready cases of the hub loop's select is free) of each scenario: 10 hand-written scenarios plus every pair of per-connection programs (≤1/≤2 operations, thorough ≤2/≤2) over {join, leave, send, disconnect, room broadcast, join/broadcast/custom-event messages handled by the hub loop} from two setups; a scenario is non-trivial when its schedules produce more than one distinct outcome; distinct = distinct (scenario, outcome) pairs")
	if p.Replay != "" {
		var rp c16Replay
		if err := vk.LoadReplay(p.Replay, &rp); err != nil {
			t.Fatal(err)
		}
		var first string
		ok := true
		for i := 0; i < 2; i++ {
			r := &c16Run{sc: rp.Scenario}
			cfg := c16Config(0, time.Time{})
			cfg.Trace = true
			x := vrt.RunOnce(cfg, rp.Choices, r.body)
			f := c16Judge(x, r)
			if i == 0 {
				first = f
				fmt.Printf("replay %s choices=%v\n%s\n-> %s\n", rp.Scenario.Name, rp.Choices, strings.Join(x.Trace, "\n"), f)
			} else if f != first {
				ok = false
			}
		}
		ok = ok && first != ""
		if ok {
			res.Violate(c16Key(first), first, rp)
		}
		res.Replayed = &ok
		res.Write(p)
		return
	}
	bound := 2
	if p.Thorough {
		bound = 3
	}
	res.Bounds["preemption_bound"] = bound
	scs := c16Scenarios(p.Thorough)
	res.Bounds["scenarios"] = len(scs)
	for si, sc := range scs {
		// hand-written scenarios (some have 10^5 schedules) are spread over all shards by their first-level
		// alternatives; the many small generated ones are dealt out whole
		spread := !strings.HasPrefix(sc.Name, "gen/")
		if !spread && !p.Mine(si) {
			continue
		}
		if p.Expired() {
			res.Exhaustive = false
			res.Note("time budget reached before scenario %d of %d", si, len(scs))
			break
		}
		var r *c16Run
		outcomes := vk.DistinctSet{}
		cfg := c16Config(bound, p.Deadline)
		if strings.HasPrefix(sc.Name, "capacity/") {
			cfg.MaxPreempt, cfg.MaxSteps = 1, 400000
		}
		if spread {
			cfg.Shard, cfg.NShard = p.Shard, p.NShard
		}
		st := vrt.Explore(cfg, func() { r = &c16Run{sc: sc}; r.body() }, func(x *vrt.Exec) bool {
			f := c16Judge(x, r)
			var sig strings.Builder
			sig.WriteString(c16Kind(f) + "|")
			if r.hub != nil {
				for i := range r.conns {
					fmt.Fprintf(&sig, "c%d:%v;", i, r.got[i])
				}
			}
			outcomes.Add(sig.String())
			if f != "" {
				res.Violate(c16Key(f), sc.Name+": "+f+" schedule="+vrt.FormatChoices(x.Choices), c16Replay{Scenario: sc, Choices: x.Choices})
			}
			return true
		})
		res.Evaluations += int64(st.Execs)
		res.Transitions += int64(st.Transitions)
		res.States += int64(st.States)
		res.Distinct += outcomes.Len()
		res.Count("schedules", int64(st.Execs))
		if outcomes.Len() > 1 && (!spread || p.Shard == 0) {
			res.Count("scenarios_with_several_outcomes", 1)
		}
		if spread {
			res.Sample(40, map[string]any{"scenario": sc.Name, "threads": fmt.Sprint(sc.Threads), "schedules_in_this_shard": st.Execs, "distinct_outcomes_in_this_shard": outcomes.Len(), "shard": fmt.Sprintf("%d/%d", p.Shard, p.NShard)})
		}
		if !st.Complete {
			res.Exhaustive = false
			res.Note("scenario %s stopped by %s after %d schedules", sc.Name, st.StoppedBy, st.Execs)
		}
	}
	res.Write(p)
}
