package decompiler

// C10 harness, part 4: the enumerated case spaces.

import (
	"encoding/binary"
	"fmt"

	"github.com/glyphlang/glyph/pkg/vm"
)

// ---------------------------------------------------------------- byte-level faults of one emitted file

var c10ByteVals = []func(b byte) byte{
	func(byte) byte { return 0x00 }, func(byte) byte { return 0x01 }, func(byte) byte { return 0x7f }, func(byte) byte { return 0x80 },
	func(byte) byte { return 0xff }, func(b byte) byte { return b + 1 }, func(b byte) byte { return b - 1 },
}

func c10U32Vals(n uint32) []uint32 {
	return []uint32{0, 1, n - 1, n, n + 1, 0x7fffffff, 0x80000000, 0xffffffff}
}

// c10Faults submits every fault of the file; returns the number of distinct cases.
func c10Faults(t *c10Tables, bc c10BC, preps []int, submit func(*c10Msg) bool) (n int64) {
	b := bc.Bytes
	f, err := c10ReadFile(b)
	if err != nil {
		return 0
	}
	ins, frames, _ := c10Walk(t, b, f)
	inAsync := func(off int) bool {
		for _, fr := range frames[1:] {
			if off >= fr.Start-5 && off < fr.End {
				return true
			}
		}
		return false
	}
	origin := fmt.Sprintf("file %q/opt%d", bc.Prog.Name, bc.Opt)
	put := func(m *c10Msg) bool {
		for _, pr := range preps {
			mm := *m
			mm.prep = byte(pr)
			mm.typ, mm.base, mm.steps = 'M', b, 2
			mm.inAsync = !mm.trunc && inAsync(int(mm.off))
			if !submit(&mm) {
				return false
			}
			n++
		}
		return true
	}
	// truncations
	for l := 0; l < len(b); l++ {
		l := l
		if !put(&c10Msg{trunc: true, off: uint32(l), labelf: func() string { return fmt.Sprintf("%s truncated to %d of %d bytes", origin, l, len(b)) }}) {
			return
		}
	}
	// every byte x boundary values
	for i := range b {
		seen := map[byte]bool{b[i]: true}
		for _, vf := range c10ByteVals {
			v := vf(b[i])
			if seen[v] {
				continue
			}
			seen[v] = true
			i, v := i, v
			if !put(&c10Msg{off: uint32(i), patch: []byte{v}, labelf: func() string { return fmt.Sprintf("%s byte %d: 0x%02x -> 0x%02x%s", origin, i, b[i], v, c10Where(f, ins, i)) }}) {
				return
			}
		}
	}
	// every u32 field x boundary values
	type field struct {
		off  int
		what string
	}
	fields := []field{{4, "version"}, {8, "constant count"}, {f.NInstrOff, "instruction length"}}
	for i, c := range f.Consts {
		if c.Type == "string" {
			fields = append(fields, field{f.ConstOffs[i] + 1, fmt.Sprintf("length of string constant %d", i)})
		}
	}
	for _, in := range ins {
		if in.HasOp {
			fields = append(fields, field{in.Off + 1, "operand of " + c10OpName(in.Op) + fmt.Sprintf(" at %d", in.Off)})
		}
	}
	for _, fd := range fields {
		cur := binary.LittleEndian.Uint32(b[fd.off:])
		seen := map[uint32]bool{cur: true}
		for _, v := range c10U32Vals(cur) {
			if seen[v] {
				continue
			}
			seen[v] = true
			fd, v := fd, v
			if !put(&c10Msg{off: uint32(fd.off), patch: binary.LittleEndian.AppendUint32(nil, v), labelf: func() string { return fmt.Sprintf("%s %s: %d -> %d", origin, fd.what, cur, v) }}) {
				return
			}
		}
	}
	// every jump operand x every offset of the file
	for _, in := range ins {
		if !t.VMJump[in.Op] {
			continue
		}
		for tgt := 0; tgt <= len(b); tgt++ {
			if uint32(tgt) == in.Operand {
				continue
			}
			in, tgt := in, tgt
			if !put(&c10Msg{off: uint32(in.Off + 1), patch: binary.LittleEndian.AppendUint32(nil, uint32(tgt)), labelf: func() string {
				return fmt.Sprintf("%s target of %s at %d: %d -> %d", origin, c10OpName(in.Op), in.Off, in.Operand, tgt)
			}}) {
				return
			}
		}
	}
	return
}

func c10Where(f *c10File, ins []c10Instr, i int) string {
	if i < f.CodeStart {
		return " (header/constant pool)"
	}
	for k := len(ins) - 1; k >= 0; k-- {
		if ins[k].Off <= i {
			if ins[k].Off == i {
				return " (opcode " + c10OpName(ins[k].Op) + ")"
			}
			return " (operand of " + c10OpName(ins[k].Op) + ")"
		}
	}
	return ""
}

// ---------------------------------------------------------------- all short instruction sequences

var c10SeqConsts = [][]byte{{0}, c10CInt(0), c10CInt(1), {2, 0, 0, 0, 0, 0, 0, 0xf8, 0x3f}, c10CBool(true), c10CBool(false),
	c10CStr("a"), c10CStr("length"), c10CStr("input"), c10CStr("x")}

type c10IV struct {
	op    byte
	hasOp bool
	sym   int // symbolic operand: >=0 literal index into vals, -1 codeStart, -2 fileLen
	val   uint32
}

func c10InstrVariants(t *c10Tables, reduced bool) []c10IV {
	vals := []uint32{0, 1, 7, 8, 9, 10, 0x7fffffff, 0x80000000, 0xffffffff}
	if reduced {
		vals = []uint32{0, 1, 8, 0xffffffff}
	}
	var out []c10IV
	for b := 0; b < 256; b++ {
		known := t.VMKnown[b]
		if !known && b != 0x00 && b != 0x15 {
			continue
		}
		if t.VMWidth[b] != 4 {
			out = append(out, c10IV{op: byte(b)})
			continue
		}
		for _, v := range vals {
			out = append(out, c10IV{op: byte(b), hasOp: true, sym: 0, val: v})
		}
		if !reduced {
			out = append(out, c10IV{op: byte(b), hasOp: true, sym: -1}, c10IV{op: byte(b), hasOp: true, sym: -2})
		}
	}
	return out
}

func c10SeqFile(seq []c10IV) []byte {
	hdr := len(c10Wrap(c10SeqConsts, nil))
	n := 0
	for _, iv := range seq {
		n++
		if iv.hasOp {
			n += 4
		}
	}
	var code []byte
	for _, iv := range seq {
		code = append(code, iv.op)
		if iv.hasOp {
			v := iv.val
			switch iv.sym {
			case -1:
				v = uint32(hdr)
			case -2:
				v = uint32(hdr + n)
			}
			code = binary.LittleEndian.AppendUint32(code, v)
		}
	}
	return c10Wrap(c10SeqConsts, code)
}

func c10SeqLabel(seq []c10IV, prep int) string {
	s := "instruction sequence ["
	for i, iv := range seq {
		if i > 0 {
			s += "; "
		}
		s += c10OpName(iv.op)
		if iv.hasOp {
			switch iv.sym {
			case -1:
				s += " <code start>"
			case -2:
				s += " <end of file>"
			default:
				s += fmt.Sprintf(" %d", iv.val)
			}
		}
	}
	return s + fmt.Sprintf("] on prepared stack #%d", prep-10)
}

// prepared stacks for sequences are preps 10..: see c10NewVM
const c10NStackPreps = 6

func c10StackPrep(k int) []vm.Value {
	obj := vm.ObjectValue{Val: map[string]vm.Value{"a": vm.IntValue{Val: 1}}}
	arr := vm.ArrayValue{Val: []vm.Value{vm.IntValue{Val: 1}, vm.IntValue{Val: 2}}}
	switch k {
	case 1:
		return []vm.Value{vm.BoolValue{Val: true}}
	case 2:
		return []vm.Value{vm.IntValue{Val: 1}, vm.IntValue{Val: 2}}
	case 3:
		return []vm.Value{vm.StringValue{Val: "length"}, vm.StringValue{Val: "b"}}
	case 4:
		return []vm.Value{obj, vm.StringValue{Val: "a"}}
	case 5:
		return []vm.Value{arr, vm.IntValue{Val: 0}}
	}
	return nil
}

// ---------------------------------------------------------------- source side

var c10Tokens = []string{";", "\n", "@", ":", "$", "+", "-", "*", "/", "%", ">", ">=", "<", "<=", "!", "!=", "==", "?", "~", "&", "&&", "||",
	"(", ")", "{", "}", "[", "]", ",", ".", "->", "|", "|>", "=", "a", "/a", "\"s\"", "1", "1.5", "true", "false", "null", "while",
	"switch", "case", "default", "for", "in", "macro", "quote", "match", "when", "=>", "...", "async", "await", "import", "from", "as",
	"module", "const", "test", "assert", "break", "continue",
	// identifiers the parser treats as keywords in context
	"if", "else", "GET", "let", "return"}

var c10Bytes = []byte{0x00, 0x09, 0x0a, 0x0d, 0x20, 0x22, 0x27, 0x5c, 0x23, 0x2f, 0x7b, 0x7d, 0x61, 0x31, 0x78, 0x75, 0xc3, 0xa0, 0xef, 0xbb, 0xbf, 0xff}

type c10Ctx struct{ Name, Pre, Post string }

var c10TokCtxs = []c10Ctx{
	{"top-level", "", "\n"},
	{"route-body", "@ GET /a {\n", "\n}\n"},
	{"expression", "@ GET /a {\n$ x = ", "\n> x\n}\n"},
	// places where the grammar has a sub-parser of its own (each with its own loops over "until the closing token")
	{"type-definition-fields", ": T {\n  f: int ", "\n}\n"},
	{"field-annotation-arguments", ": T {\n  f: int @min(", ")\n}\n"},
	{"field-annotation-arguments-unclosed", ": T {\n  f: int @min(", "\n}\n"},
	{"route-header", "@ GET /a ", " {\n> 1\n}\n"},
	{"function-parameters", "! f(", ") {\n> 1\n}\n"},
	{"type-annotation", "@ GET /a {\n$ x: ", " = 1\n> x\n}\n"},
	{"match-arm", "@ GET /a {\n$ x = match a {\n", " => 1\n_ => 0\n}\n> x\n}\n"},
	{"object-literal", "@ GET /a {\n$ x = {", "}\n> x\n}\n"},
	{"call-arguments", "@ GET /a {\n$ x = f(", ")\n> x\n}\n"},
	{"index", "@ GET /a {\n$ x = a[", "]\n> x\n}\n"},
	{"route-directive", "@ GET /a {\n+ ", "\n> 1\n}\n"},
	{"route-injection", "@ GET /a {\n% ", "\n> 1\n}\n"},
	{"import", "import ", "\n"},
	{"websocket-route", "@ ws /c {\n", "\n}\n"},
	{"for-header", "@ GET /a {\nfor ", " {\n> 1\n}\n}\n"},
	{"switch-body", "@ GET /a {\nswitch a {\n", "\n}\n}\n"},
}

var c10ByteCtxs = []c10Ctx{
	{"top-level", "", ""},
	{"route-body", "@ GET /a {\n", "\n}\n"},
	{"string-literal", "@ GET /a {\n$ x = \"", "\"\n> x\n}\n"},
	// the input ends inside the literal (a file cut in the middle of a token, an escape without its digits)
	{"open-string-at-end-of-input", "@ GET /a {\n$ x = \"", ""},
}

// ---------------------------------------------------------------- nesting families

func c10NestFamilies() []c10Nest {
	r := func(fam, pre, open, mid, cl, post string) c10Nest {
		return c10Nest{Family: fam, Pre: "@ GET /a {\n" + pre, Open: open, Mid: mid, Close: cl, Post: post + "\n}\n"}
	}
	return []c10Nest{
		r("parentheses", "$ x = ", "(", "1", ")", ""),
		r("unary-not", "$ x = ", "!", "true", "", ""),
		r("unary-minus", "$ x = ", "- ", "1", "", ""),
		r("array-literal", "$ x = ", "[", "1", "]", ""),
		r("object-literal", "$ x = ", "{a: ", "1", "}", ""),
		r("call", "$ x = ", "f(", "1", ")", ""),
		r("index-chain", "$ x = a", "[0]", "", "", ""),
		r("field-chain", "$ x = a", ".b", "", "", ""),
		r("binary-chain", "$ x = 1", " + 1", "", "", ""),
		r("pipe-chain", "$ x = a", " |> f", "", "", ""),
		r("if-block", "", "if true {\n", "> 1\n", "}\n", ""),
		r("else-if-chain", "if a {\n> 1\n}", " else if a {\n> 1\n}", "", "", ""),
		r("while-block", "", "while true {\n", "> 1\n", "}\n", ""),
		r("for-block", "", "for v in a {\n", "> 1\n", "}\n", ""),
		r("switch-block", "", "switch a {\ncase 1 {\n", "> 1\n", "}\n}\n", ""),
		r("match-expr", "$ x = ", "match a {\n_ => ", "1", "\n}", ""),
		r("array-pattern", "$ x = match a {\n", "[", "p", "]", " => 1\n_ => 0\n}"),
		r("object-pattern", "$ x = match a {\n", "{k: ", "p", "}", " => 1\n_ => 0\n}"),
		r("async-block", "$ x = ", "async {\n> ", "1", "\n}", ""),
		r("await-chain", "$ x = ", "await ", "a", "", ""),
		r("array-type", "$ x: ", "[", "int", "]", " = 1"),
		r("generic-type", "$ x: ", "List<", "int", ">", " = 1"),
		r("function-type", "$ x: ", "(", "int", ") -> int", " = 1"),
		r("optional-type", "$ x: int", "?", "", "", " = 1"),
		r("union-type", "$ x: int", " | int", "", "", " = 1"),
		r("statements", "", "$ x = 1\n", "", "", "> 1"),
		r("string-length", "$ x = \"", "a", "", "", "\""),
		r("identifier-length", "$ x = ", "a", "", "", ""),
		r("comment-length", "# ", "a", "", "", "\n> 1"),
		r("blank-lines", "", "\n", "", "", "> 1"),
		{Family: "typedef-field-type", Pre: ": T {\n  f: ", Open: "[", Mid: "int", Close: "]", Post: "\n}\n"},
		{Family: "routes", Pre: "", Open: "@ GET /a {\n> 1\n}\n", Mid: "", Close: "", Post: ""},
		{Family: "macro-body", Pre: "macro! m(x) {\n", Open: "if true {\n", Mid: "> x\n", Close: "}\n", Post: "}\n"},
		// a statement that starts `name[` is parsed speculatively as an index assignment; blocks inside the index
		// expression make a re-parse after a failed speculation cost a whole subtree per level
		{Family: "index-statement-holding-a-block", Pre: "@ GET /a {\n", Open: "a[async {\n", Mid: "> 1\n", Close: "}]\n", Post: "}\n"},
		{Family: "index-assignment-holding-a-block", Pre: "@ GET /a {\n", Open: "a[async {\n", Mid: "> 1\n", Close: "}] = 1\n", Post: "}\n"},
		{Family: "index-field-call-holding-a-block", Pre: "@ GET /a {\n", Open: "a[async {\n", Mid: "> 1\n", Close: "}].b(1)\n", Post: "}\n"},
		{Family: "quote-expr", Pre: "@ GET /a {\n$ x = ", Open: "quote {\n", Mid: "1", Close: "\n}", Post: "\n}\n"},
	}
}

// ---------------------------------------------------------------- step-limit alignment

// c10AlignFiles: hand-assembled programs in which an ASYNC whose body never ends (`JUMP 0`, body-relative) is
// instruction number pos of the run (pos-1 fillers: PUSH/POP pairs, one leading PUSH when pos is even), and the same
// one level down (an outer body that reaches an inner ASYNC as its own instruction number pos). Run under a step
// limit L with pos = 1..L+4, so that the ASYNC sits before, exactly at, one past and beyond the limit: whatever
// budget the body is given must stop it.
func c10AlignFiles(limit int) (files [][]byte, labels []string) {
	fill := func(n int) []byte {
		var c []byte
		if n%2 == 1 {
			c = append(c, byte(vm.OpPush), 0, 0, 0, 0)
			n--
		}
		for ; n > 0; n -= 2 {
			c = append(c, byte(vm.OpPush), 0, 0, 0, 0, byte(vm.OpPop))
		}
		return c
	}
	spinner := []byte{byte(vm.OpAsync), 5, 0, 0, 0, byte(vm.OpJump), 0, 0, 0, 0}
	for pos := 1; pos <= limit+4; pos++ {
		code := append(fill(pos-1), spinner...)
		code = append(code, byte(vm.OpHalt))
		files = append(files, c10Wrap(c10SeqConsts, code))
		labels = append(labels, fmt.Sprintf("step limit %d: ASYNC{JUMP 0} as instruction %d of the run", limit, pos))
		inner := append(fill(pos-1), spinner...)
		inner = append(inner, byte(vm.OpHalt))
		outer := append([]byte{byte(vm.OpAsync)}, binary.LittleEndian.AppendUint32(nil, uint32(len(inner)))...)
		outer = append(outer, inner...)
		outer = append(outer, byte(vm.OpHalt))
		files = append(files, c10Wrap(c10SeqConsts, outer))
		labels = append(labels, fmt.Sprintf("step limit %d: ASYNC{ ...; ASYNC{JUMP 0} as instruction %d of the body }", limit, pos))
	}
	return
}
