package decompiler

// C10 harness, part 3: disposable workers and their supervisor.
//
// Every case that feeds attacker-shaped bytes to the code under test runs in a
// worker: the test binary re-executed under `ulimit -v` (an out-of-memory abort
// and a stack overflow are fatal in Go).  Before each step of each case the
// worker stores (case, step) in a word of a shared memory-mapped file, so a dead
// worker is attributed to exactly one step of one case; the supervisor records
// the finding, starts a fresh worker and resumes behind that step.  The
// supervisor also watches the worker's CPU time (not wall time) to turn a step
// that does not return into a finding.

import (
	"bufio"
	"encoding/binary"
	"encoding/json"
	"fmt"
	"io"
	"os"
	"os/exec"
	"path/filepath"
	"regexp"
	"runtime"
	"runtime/debug"
	"runtime/metrics"
	"sort"
	"strconv"
	"strings"
	"sync/atomic"
	"syscall"
	"time"
	"unsafe"

	"github.com/glyphlang/glyph/pkg/ast"
	"github.com/glyphlang/glyph/pkg/compiler"
	"github.com/glyphlang/glyph/pkg/formatter"
	"github.com/glyphlang/glyph/pkg/parser"
	"github.com/glyphlang/glyph/pkg/vm"
)

const (
	c10StepLimit = 10000 // VM step limit of the property ("under the step limit")
	c10ModPrefix = "github.com/glyphlang/glyph/"
	c10VMBudget  = 64 << 20 // bytes one Execute may allocate (inputs are < 64 KiB, <= 10^4 steps)
	// watchdogs: CPU time of the worker inside one step; generous (steps take micro- to milliseconds on small inputs)
	c10CPUBase    = 30 * time.Second
	c10CPUPerByte = 50 * time.Microsecond
	c10NoProgress = 90 * time.Second // wall time without any CPU consumption inside a step
	c10AckEvery   = 64
	c10SpinCPU    = 10 * time.Second // an async body bounded by the step limit needs milliseconds
)

// ulimit -v of a worker: 2 GiB; the thorough tier, which lets a recursion really exhaust the 1 GB goroutine stack, 6 GiB
var c10VLimitKiB = 2 * 1024 * 1024

// steps
const (
	c10StDecompile = 1 // bc
	c10StExecute   = 2 // bc
	c10StLexParse  = 1 // src
	c10StXLexParse = 2
	c10StTextTools = 3
	c10StFormatAST = 4
	c10StCompile   = 5
)

var c10StepNames = map[string]map[int]string{
	"bc":  {1: "decompile", 2: "vm-execute"},
	"src": {1: "lex+parse", 2: "expanded-lex+parse", 3: "expand/compact/fmt(text)", 4: "format(ast)", 5: "compile+run"},
}

// c10Nest describes one member of a nesting family: Pre + Open*Depth + Mid + Close*Depth + Post
type c10Nest struct {
	Family string `json:"family"`
	Pre    string `json:"pre"`
	Open   string `json:"open"`
	Mid    string `json:"mid"`
	Close  string `json:"close"`
	Post   string `json:"post"`
	Depth  int    `json:"depth"`
}

func (n *c10Nest) Len() int {
	return len(n.Pre) + len(n.Mid) + len(n.Post) + n.Depth*(len(n.Open)+len(n.Close))
}

func (n *c10Nest) Text() string {
	var sb strings.Builder
	sb.Grow(n.Len())
	sb.WriteString(n.Pre)
	for i := 0; i < n.Depth; i++ {
		sb.WriteString(n.Open)
	}
	sb.WriteString(n.Mid)
	for i := 0; i < n.Depth; i++ {
		sb.WriteString(n.Close)
	}
	sb.WriteString(n.Post)
	return sb.String()
}

// c10Case is a fully materialised case (what a replay file holds).
type c10Case struct {
	Kind  string   `json:"kind"`            // bc | src | nest | growth
	Data  []byte   `json:"data,omitempty"`  // bc: file bytes; src: text
	Prep  int      `json:"prep,omitempty"`  // bc: which locals / prepared stack
	Steps int      `json:"steps,omitempty"` // src/nest: bit mask of steps to run (0 = all)
	Nest  *c10Nest `json:"nest,omitempty"`
	Label string   `json:"label,omitempty"`
}

type c10Finding struct {
	Kind string `json:"kind"` // panic | alloc | goroutine | emitted | died | hang
	Step int    `json:"step"`
	Key  string `json:"key"`
	Desc string `json:"desc"`
}

// ---------------------------------------------------------------- shared progress word

type c10Progress struct {
	f    *os.File
	mem  []byte
	word *uint64
}

func c10OpenProgress(path string, create bool) (*c10Progress, error) {
	flags := os.O_RDWR
	if create {
		flags |= os.O_CREATE | os.O_TRUNC
	}
	f, err := os.OpenFile(path, flags, 0o644)
	if err != nil {
		return nil, err
	}
	if create {
		if err := f.Truncate(4096); err != nil {
			return nil, err
		}
	}
	mem, err := syscall.Mmap(int(f.Fd()), 0, 4096, syscall.PROT_READ|syscall.PROT_WRITE, syscall.MAP_SHARED)
	if err != nil {
		return nil, err
	}
	return &c10Progress{f: f, mem: mem, word: (*uint64)(unsafe.Pointer(&mem[0]))}, nil
}

// word = (idx+1)<<8 | step; 0 = no case
func (p *c10Progress) Set(idx uint32, step int) { atomic.StoreUint64(p.word, (uint64(idx)+1)<<8|uint64(step)) }
func (p *c10Progress) Clear()                   { atomic.StoreUint64(p.word, 0) }
func (p *c10Progress) Get() (idx int64, step int) {
	w := atomic.LoadUint64(p.word)
	return int64(w>>8) - 1, int(w & 0xff)
}
func (p *c10Progress) Close() {
	syscall.Munmap(p.mem)
	p.f.Close()
}

// ---------------------------------------------------------------- worker

type c10Worker struct {
	out      *os.File
	prog     *c10Progress
	base     []byte
	sample   []metrics.Sample
	stackS   []metrics.Sample
	baseG    int
	steps    int64
	maxRatio map[string]float64
	tables   *c10Tables
	memSnap  map[string]int64
	memSnapObj map[string]int64
}

func (w *c10Worker) alloc() uint64 {
	metrics.Read(w.sample)
	return w.sample[0].Value.Uint64()
}

func (w *c10Worker) emit(s string) { w.out.WriteString(s) }

func c10PanicClass(r any) string {
	s := fmt.Sprint(r)
	for _, k := range []string{"index out of range", "slice bounds out of range", "nil pointer dereference", "makeslice: len out of range", "makeslice: cap out of range",
		"nil map", "interface conversion", "integer divide by zero", "makemap: size out of range", "out of memory"} {
		if strings.Contains(s, k) {
			return k
		}
	}
	s = regexp.MustCompile(`[0-9]+`).ReplaceAllString(s, "N")
	if len(s) > 60 {
		s = s[:60]
	}
	return s
}

var c10FuncSuffixRE = regexp.MustCompile(`\.func[0-9]+(\.[0-9]+)*$`)

func c10IsHarnessFrame(l string) bool {
	return strings.Contains(l, ".c10") || strings.Contains(l, ".(*c10") || strings.Contains(l, "TestVerif_C10") || strings.Contains(l, "internal/verif")
}

// first frame inside the repository that is not harness code (from a textual stack dump)
func c10RepoFrame(stack string) string {
	for _, l := range strings.Split(stack, "\n") {
		if !strings.HasPrefix(l, c10ModPrefix) || c10IsHarnessFrame(l) {
			continue
		}
		f := strings.TrimPrefix(l, c10ModPrefix)
		if i := strings.LastIndex(f, "("); i > 0 {
			f = f[:i]
		}
		return c10FuncSuffixRE.ReplaceAllString(f, "")
	}
	return "unknown"
}

// bigAllocSite: the repository function whose allocations grew most since the last call, the average
// size of the objects it allocated since then, and whether that happened on the goroutine of an async
// body.  (Allocations larger than the profiling rate are always recorded by the runtime; smaller
// ones are sampled and scaled.)
func (w *c10Worker) bigAllocSite() (site string, avgObj int64, inAsync bool) {
	runtime.GC()
	runtime.GC()
	n, _ := runtime.MemProfile(nil, true)
	recs := make([]runtime.MemProfileRecord, n+64)
	n, ok := runtime.MemProfile(recs, true)
	if !ok {
		return "unknown", 0, false
	}
	best, bestDelta := "unknown", int64(0)
	for _, r := range recs[:n] {
		fn := "unknown"
		async := false
		fr := runtime.CallersFrames(r.Stack())
		for {
			f, more := fr.Next()
			if fn == "unknown" && strings.HasPrefix(f.Function, c10ModPrefix) && !c10IsHarnessFrame(f.Function) {
				fn = c10FuncSuffixRE.ReplaceAllString(strings.TrimPrefix(f.Function, c10ModPrefix), "")
			}
			if strings.Contains(f.Function, "execAsync.func") {
				async = true
			}
			if !more {
				break
			}
		}
		var key strings.Builder
		for _, pc := range r.Stack() {
			fmt.Fprintf(&key, "%x,", pc)
		}
		k := key.String()
		d := r.AllocBytes - w.memSnap[k]
		dObj := r.AllocObjects - w.memSnapObj[k]
		w.memSnap[k], w.memSnapObj[k] = r.AllocBytes, r.AllocObjects
		if fn == "unknown" {
			continue
		}
		if d > bestDelta {
			best, bestDelta, inAsync = fn, d, async
			avgObj = d
			if dObj > 0 {
				avgObj = d / dObj
			}
		}
	}
	return best, avgObj, inAsync
}

var c10ExecRE = regexp.MustCompile(`^pkg/vm\.\(\*VM\)\.exec([A-Z][A-Za-z]*)$`)

func c10SiteName(fn string) string {
	if mm := c10ExecRE.FindStringSubmatch(fn); mm != nil {
		return "Op" + mm[1]
	}
	return fn
}

// step runs f as one announced step with the panic and allocation oracles.
// mode 0: on this goroutine; mode 1: on a fresh goroutine whose stack need is measured;
// mode 2: on a fresh goroutine, watching for an async body that keeps running while f is blocked.
func (w *c10Worker) step(idx uint32, kind string, step int, budget uint64, mode int, f func()) (fs []c10Finding, stackBytes uint64, spin bool) {
	w.prog.Set(idx, step)
	w.steps++
	a0 := w.alloc()
	var pan any
	var stack string
	body := func() {
		defer func() {
			if r := recover(); r != nil {
				pan, stack = r, string(debug.Stack())
			}
			if mode == 1 {
				metrics.Read(w.stackS)
				stackBytes = w.stackS[0].Value.Uint64()
			}
		}()
		f()
	}
	switch mode {
	case 0:
		body()
	case 1:
		metrics.Read(w.stackS)
		s0 := w.stackS[0].Value.Uint64()
		done := make(chan struct{})
		go func() { defer close(done); body() }()
		<-done
		if stackBytes > s0 {
			stackBytes -= s0
		} else {
			stackBytes = 0
		}
	case 2:
		done := make(chan struct{})
		go func() { defer close(done); body() }()
		select {
		case <-done:
		case <-time.After(50 * time.Millisecond):
			cpu0 := c10SelfCPU()
			tk := time.NewTicker(5 * time.Millisecond)
		wait:
			for {
				select {
				case <-done:
					break wait
				case <-tk.C:
					if runtime.NumGoroutine() > w.baseG+1 && c10SelfCPU()-cpu0 > c10SpinCPU {
						spin = true
						break wait
					}
				}
			}
			tk.Stop()
		}
		if spin {
			return []c10Finding{{Kind: "goroutine", Step: step, Key: "vm/async-body-outlives-step-limit",
				Desc: fmt.Sprintf("Execute (step limit %d) is waiting for an async body that has been running for %.1fs of CPU time: the step limit is not applied to async bodies (await gives up after %v, the body keeps running)",
					c10StepLimit, c10SpinCPU.Seconds(), vm.DefaultAsyncTimeout)}}, 0, true
		}
	}
	used := w.alloc() - a0
	name := c10StepNames[kind][step]
	if pan != nil {
		fn := c10RepoFrame(stack)
		fs = append(fs, c10Finding{Kind: "panic", Step: step, Key: fmt.Sprintf("panic/%s/%s/%s", name, fn, c10PanicClass(pan)),
			Desc: fmt.Sprintf("%s panics in %s: %v", name, fn, pan)})
	}
	if r := float64(used) / float64(budget); r > w.maxRatio[name] {
		w.maxRatio[name] = r
	}
	if used > budget {
		fn, avg, inAsync := w.bigAllocSite()
		site := c10SiteName(fn)
		switch {
		case avg >= 1<<20:
			fs = append(fs, c10Finding{Kind: "alloc", Step: step, Key: fmt.Sprintf("alloc-out-of-proportion/%s/%s", name, site),
				Desc: fmt.Sprintf("%s allocated %d bytes (budget for this input: %d), most of it in %s in objects of about %d bytes", name, used, budget, site, avg)})
		case inAsync && kind == "bc":
			// many small objects on the goroutine of an async body: only possible when the body runs far more than the step limit
			fs = append(fs, c10Finding{Kind: "goroutine", Step: step, Key: "vm/async-body-outlives-step-limit",
				Desc: fmt.Sprintf("Execute (step limit %d) allocated %d bytes in small objects (about %d bytes each, mostly in %s) on the goroutine of an async body: the body ran far beyond the step limit, which is not applied to async bodies", c10StepLimit, used, avg, site)})
		default:
			fs = append(fs, c10Finding{Kind: "alloc", Step: step, Key: fmt.Sprintf("alloc-out-of-proportion/%s/many-small-objects/%s", name, site),
				Desc: fmt.Sprintf("%s allocated %d bytes (budget for this input: %d) in small objects (about %d bytes each), mostly in %s", name, used, budget, avg, site)})
		}
		debug.FreeOSMemory()
	}
	return
}

func c10LoaderBudget(n int) uint64 { return uint64(n)*4096 + 16<<20 }

func (w *c10Worker) runBC(idx uint32, b []byte, prep int, from int, upto int) (fs []c10Finding, exit bool) {
	if from <= c10StDecompile {
		r, _, _ := w.step(idx, "bc", c10StDecompile, c10LoaderBudget(len(b)), 0, func() {
			d, err := NewDecompiler().Decompile(b)
			if err == nil {
				_ = d.Format()
				_ = d.FormatDisassembly()
			} else {
				_ = err.Error()
			}
		})
		fs = append(fs, r...)
	}
	if from <= c10StExecute && (upto == 0 || upto >= c10StExecute) {
		// prep >= 128 selects a small step limit (prep-128) with the handler's locals and an empty stack: the
		// step-limit alignment part puts an instruction at every position around the limit
		lim := c10StepLimit
		if prep >= 128 {
			lim, prep = prep-128, 0
		}
		r, _, spin := w.step(idx, "bc", c10StExecute, c10VMBudget, 2, func() {
			m := c10NewVM(prep, lim)
			_, err := m.Execute(b)
			if err != nil {
				_ = err.Error()
			}
		})
		fs = append(fs, r...)
		if spin {
			return fs, true
		}
		// goroutines started by the program (async bodies) must be gone: the step limit bounds them too
		if runtime.NumGoroutine() > w.baseG {
			runtime.Gosched()
		}
		if runtime.NumGoroutine() > w.baseG {
			cpu0 := c10SelfCPU()
			t0 := time.Now()
			for runtime.NumGoroutine() > w.baseG {
				time.Sleep(200 * time.Microsecond)
				if c10SelfCPU()-cpu0 > c10SpinCPU || time.Since(t0) > 60*time.Second {
					how := "still consuming CPU"
					if c10SelfCPU()-cpu0 <= c10SpinCPU {
						how = "blocked"
					}
					// allocations counted during this step include those of the body that is still running
					kept := fs[:0]
					for _, f := range fs {
						if !(f.Kind == "alloc" && f.Step == c10StExecute) {
							kept = append(kept, f)
						}
					}
					fs = kept
					fs = append(fs, c10Finding{Kind: "goroutine", Step: c10StExecute, Key: "vm/async-body-outlives-step-limit",
						Desc: fmt.Sprintf("Execute (step limit %d) returned, but a goroutine it started for an async body is %s after %.1fs CPU / %.0fs wall: the step limit is not applied to async bodies",
							lim, how, (c10SelfCPU() - cpu0).Seconds(), time.Since(t0).Seconds())})
					return fs, true
				}
			}
		}
	}
	return fs, false
}

func c10SelfCPU() time.Duration {
	var ru syscall.Rusage
	syscall.Getrusage(syscall.RUSAGE_SELF, &ru)
	return time.Duration(ru.Utime.Nano() + ru.Stime.Nano())
}

func (w *c10Worker) runSrc(idx uint32, src string, mask int, from int, stacks bool) (fs []c10Finding, exit bool) {
	want := func(st int) bool { return from <= st && (mask == 0 || mask&(1<<st) != 0) }
	budget := c10LoaderBudget(len(src))
	smode := 0
	if stacks {
		smode = 1
	}
	var mod *ast.Module
	if want(c10StLexParse) || (from <= c10StCompile && (want(c10StFormatAST) || want(c10StCompile))) {
		r, sb, _ := w.step(idx, "src", c10StLexParse, budget, smode, func() {
			toks, err := parser.NewLexer(src).Tokenize()
			if err != nil {
				_ = err.Error()
				return
			}
			m, err := parser.NewParserWithSource(toks, src).Parse()
			if err != nil {
				_ = err.Error()
				return
			}
			mod = m
		})
		if want(c10StLexParse) {
			fs = append(fs, r...)
			if stacks {
				w.emit(fmt.Sprintf("k %d %d %d\n", idx, c10StLexParse, sb))
			}
		}
	}
	if want(c10StXLexParse) {
		r, sb, _ := w.step(idx, "src", c10StXLexParse, budget, smode, func() {
			toks, err := parser.NewExpandedLexer(src).Tokenize()
			if err != nil {
				_ = err.Error()
				return
			}
			if _, err := parser.NewParserWithSource(toks, src).Parse(); err != nil {
				_ = err.Error()
			}
		})
		fs = append(fs, r...)
		if stacks {
			w.emit(fmt.Sprintf("k %d %d %d\n", idx, c10StXLexParse, sb))
		}
	}
	if want(c10StTextTools) {
		r, _, _ := w.step(idx, "src", c10StTextTools, 3*budget, 0, func() {
			_ = formatter.ExpandSource(src)
			_ = formatter.CompactSource(src)
			_ = formatter.CanonicalizeSource(src)
		})
		fs = append(fs, r...)
	}
	if mod != nil && want(c10StFormatAST) {
		r, _, _ := w.step(idx, "src", c10StFormatAST, 2*budget, 0, func() {
			_ = formatter.New(formatter.Compact).Format(mod)
			_ = formatter.New(formatter.Expanded).Format(mod)
		})
		fs = append(fs, r...)
	}
	if mod != nil && want(c10StCompile) {
		var bcs [][]byte
		r, _, _ := w.step(idx, "src", c10StCompile, 2*budget+c10VMBudget, 0, func() {
			for _, it := range mod.Items {
				r, ok := it.(*ast.Route)
				if !ok {
					continue
				}
				bc, err := compiler.NewCompilerWithOptLevel(compiler.OptBasic).CompileRoute(r)
				if err != nil {
					_ = err.Error()
					continue
				}
				bcs = append(bcs, bc)
			}
			// what was emitted is well-formed, loads, runs under the step limit and disassembles
			for _, bc := range bcs {
				for _, x := range c10RoundTrip(w.tables, c10BC{Prog: c10Prog{Name: "generated source", Src: src}, Opt: 1, Bytes: bc}, map[byte]bool{}) {
					fs = append(fs, c10Finding{Kind: "emitted", Step: c10StCompile, Key: x.Key, Desc: x.Desc})
				}
			}
		})
		fs = append(fs, r...)
	}
	return fs, false
}

func c10ReadMsg(r *bufio.Reader) (typ byte, payload []byte, err error) {
	var hdr [5]byte
	if _, err = io.ReadFull(r, hdr[:]); err != nil {
		return
	}
	n := binary.LittleEndian.Uint32(hdr[1:])
	payload = make([]byte, n)
	_, err = io.ReadFull(r, payload)
	return hdr[0], payload, err
}

func c10WorkerMain() {
	c10Quiet()
	out := os.NewFile(3, "c10-proto")
	if out == nil {
		os.Exit(3)
	}
	prog, err := c10OpenProgress(os.Getenv("C10_PROGRESS"), false)
	if err != nil {
		out.WriteString("e cannot map progress file: " + err.Error() + "\n")
		os.Exit(3)
	}
	w := &c10Worker{out: out, prog: prog, sample: []metrics.Sample{{Name: "/gc/heap/allocs:bytes"}}, stackS: []metrics.Sample{{Name: "/memory/classes/heap/stacks:bytes"}},
		maxRatio: map[string]float64{}, memSnap: map[string]int64{}, memSnapObj: map[string]int64{}}
	tb := &c10Tables{}
	if err := json.Unmarshal([]byte(os.Getenv("C10_TABLES")), tb); err != nil {
		w.emit("e bad C10_TABLES: " + err.Error() + "\n")
		os.Exit(3)
	}
	w.tables = tb
	time.Sleep(time.Millisecond)
	w.baseG = runtime.NumGoroutine()
	in := bufio.NewReaderSize(os.Stdin, 1<<20)
	done := 0
	for {
		typ, p, err := c10ReadMsg(in)
		if err != nil || typ == 'Q' {
			break
		}
		var fs []c10Finding
		var exit bool
		var idx uint32
		switch typ {
		case 'F':
			w.base = p
			continue
		case 'Z':
			w.prog.Clear()
			w.emit("z\n")
			continue
		case 'M': // idx u32, prep u8, from u8, upto u8, mode u8, off u32, n u8, bytes
			idx = binary.LittleEndian.Uint32(p)
			prep, from, upto, mode := int(p[4]), int(p[5]), int(p[6]), p[7]
			off := int(binary.LittleEndian.Uint32(p[8:]))
			var b []byte
			if mode == 1 {
				b = append([]byte{}, w.base[:off]...)
			} else {
				b = append([]byte{}, w.base...)
				copy(b[off:], p[13:13+int(p[12])])
			}
			fs, exit = w.runBC(idx, b, prep, from, upto)
		case 'B': // idx u32, prep u8, from u8, upto u8, bytes
			idx = binary.LittleEndian.Uint32(p)
			fs, exit = w.runBC(idx, p[7:], int(p[4]), int(p[5]), int(p[6]))
		case 'S': // idx u32, from u8, mask u8, text
			idx = binary.LittleEndian.Uint32(p)
			fs, exit = w.runSrc(idx, string(p[6:]), int(p[5]), int(p[4]), false)
		case 'N': // idx u32, from u8, mask u8, json
			idx = binary.LittleEndian.Uint32(p)
			var n c10Nest
			if json.Unmarshal(p[6:], &n) != nil {
				os.Exit(3)
			}
			fs, exit = w.runSrc(idx, n.Text(), int(p[5]), int(p[4]), true)
		}
		for _, f := range fs {
			j, _ := json.Marshal(f)
			w.emit(fmt.Sprintf("f %d %s\n", idx, j))
		}
		if exit {
			w.emit(fmt.Sprintf("x %d\n", idx))
			os.Exit(0)
		}
		w.prog.Set(idx, 255) // between cases
		done++
		if done%c10AckEvery == 0 {
			w.emit(fmt.Sprintf("a %d %d\n", idx, w.steps))
		}
	}
	sum, _ := json.Marshal(map[string]any{"steps": w.steps, "max_ratio": w.maxRatio})
	w.emit("q " + string(sum) + "\n")
	os.Exit(0)
}

func c10Quiet() {
	if dn, err := os.OpenFile(os.DevNull, os.O_WRONLY, 0); err == nil {
		os.Stdout = dn
	}
}

// ---------------------------------------------------------------- supervisor

type c10Msg struct {
	idx    uint32
	typ    byte
	prep   byte
	from   byte
	upto   byte // bc: last step to run (0 = all)
	mask   byte
	trunc  bool
	off    uint32
	patch  []byte
	data   []byte // B: file, S: text
	nest   *c10Nest
	base   []byte // M: the file the patch applies to
	label  string // origin, or
	labelf func() string
	steps  int // number of steps of this case kind
	inAsync bool // M: the mutated bytes lie inside an async body (or its OpAsync instruction)
	retried bool // the step was killed by the CPU watchdog once and is being re-run with twice the limit
}

func (m *c10Msg) inputLen() int {
	switch m.typ {
	case 'M':
		return len(m.base)
	case 'N':
		return m.nest.Len()
	}
	return len(m.data)
}

func (m *c10Msg) encode() []byte {
	var p []byte
	p = binary.LittleEndian.AppendUint32(p, m.idx)
	switch m.typ {
	case 'M':
		mode := byte(0)
		if m.trunc {
			mode = 1
		}
		p = append(p, m.prep, m.from, m.upto, mode)
		p = binary.LittleEndian.AppendUint32(p, m.off)
		p = append(p, byte(len(m.patch)))
		p = append(p, m.patch...)
	case 'B':
		p = append(p, m.prep, m.from, m.upto)
		p = append(p, m.data...)
	case 'S':
		p = append(p, m.from, m.mask)
		p = append(p, m.data...)
	case 'N':
		p = append(p, m.from, m.mask)
		j, _ := json.Marshal(m.nest)
		p = append(p, j...)
	}
	return c10Frame5(m.typ, p)
}

func c10Frame5(typ byte, p []byte) []byte {
	h := make([]byte, 5, 5+len(p))
	h[0] = typ
	binary.LittleEndian.PutUint32(h[1:], uint32(len(p)))
	return append(h, p...)
}

// materialise the case for a replay file
func (m *c10Msg) toCase() c10Case {
	c := c10Case{Prep: int(m.prep), Steps: int(m.mask), Label: m.getLabel()}
	switch m.typ {
	case 'M':
		c.Kind = "bc"
		if m.trunc {
			c.Data = append([]byte{}, m.base[:m.off]...)
		} else {
			c.Data = append([]byte{}, m.base...)
			copy(c.Data[m.off:], m.patch)
		}
	case 'B':
		c.Kind, c.Data = "bc", m.data
	case 'S':
		c.Kind, c.Data = "src", m.data
	case 'N':
		c.Kind, c.Nest = "nest", m.nest
	}
	return c
}

func (m *c10Msg) getLabel() string {
	if m.labelf != nil {
		return m.labelf()
	}
	return m.label
}

func (m *c10Msg) kindName() string {
	if m.typ == 'M' || m.typ == 'B' {
		return "bc"
	}
	return "src"
}

type c10Proc struct {
	cmd     *exec.Cmd
	sendCh  chan []byte
	lines   chan string
	errPath string
	done    chan error
	hasBase []byte
}

type c10Sup struct {
	res      *c10ResultSink
	scratch  string
	proc     *c10Proc
	prog     *c10Progress
	progPath string
	pending  []*c10Msg
	window   int
	nextIdx  uint32
	// watchdog state
	wIdx      int64
	wStep     int
	wSince    time.Time
	wCPU      time.Duration
	lastCPU   time.Duration
	lastCPUAt time.Time
	seq       int
	Restarts  int64
	Retried   int64
	Cases     int64
	Steps     int64
	procSteps int64
	MaxRatio  map[string]float64
	fatal     string
	flushSent bool
	exitAsked bool
	tablesJSON string
	// stack bytes reported for nesting cases: idx -> step -> bytes
	Stacks map[uint32]map[int]uint64
	// opcodes whose execution with a huge operand already cost a worker (or > budget) in this run: further
	// files containing such an instruction are disassembled but not executed (each would cost
	// a worker and re-demonstrate the same finding); counted in Skipped
	fatalOps map[byte]string
	Skipped  map[string]int64
	// number of times an async body was seen running on without the step limit: after the first,
	// mutations inside async bodies are disassembled but not executed (each costs CPU seconds and a worker)
	asyncSpin int
	// HardStop: past this instant the supervisor gives up (kills the worker, forgets queued cases); Aborted says so
	HardStop time.Time
	Aborted  bool
}

// c10ResultSink receives findings (the test wires it to vk.Result).
type c10ResultSink struct {
	violate func(key, desc string, c c10Case)
}

func c10NewSup(scratch string, sink *c10ResultSink, tb *c10Tables) *c10Sup {
	tj, _ := json.Marshal(tb)
	return &c10Sup{res: sink, scratch: scratch, window: 1024, wIdx: -1, MaxRatio: map[string]float64{}, fatalOps: map[byte]string{}, Skipped: map[string]int64{},
		Stacks: map[uint32]map[int]uint64{}, tablesJSON: string(tj)}
}

func (s *c10Sup) start() error {
	s.seq++
	if s.prog == nil {
		s.progPath = filepath.Join(s.scratch, fmt.Sprintf("c10-prog-%d", os.Getpid()))
		pg, err := c10OpenProgress(s.progPath, true)
		if err != nil {
			return err
		}
		s.prog = pg
	}
	s.prog.Clear()
	errPath := filepath.Join(s.scratch, fmt.Sprintf("c10-err-%d-%d", os.Getpid(), s.seq))
	errf, err := os.Create(errPath)
	if err != nil {
		return err
	}
	pr, pw, err := os.Pipe()
	if err != nil {
		return err
	}
	sh := fmt.Sprintf("ulimit -v %d; exec \"$0\" -test.run '^TestVerif_C10$' -test.count=1 -test.timeout=0", c10VLimitKiB)
	cmd := exec.Command("/bin/sh", "-c", sh, os.Args[0])
	cmd.Env = append(os.Environ(), "C10_WORKER=1", "GOTRACEBACK=all", "GOMAXPROCS=1", "C10_TABLES="+s.tablesJSON, "C10_PROGRESS="+s.progPath)
	cmd.Stdout = nil
	cmd.Stderr = errf
	cmd.ExtraFiles = []*os.File{pw}
	stdin, err := cmd.StdinPipe()
	if err != nil {
		return err
	}
	if err := cmd.Start(); err != nil {
		return err
	}
	pw.Close()
	errf.Close()
	p := &c10Proc{cmd: cmd, sendCh: make(chan []byte, 8192), lines: make(chan string, 4096), errPath: errPath, done: make(chan error, 1)}
	go func() { // writer: coalesces queued messages into large writes
		buf := make([]byte, 0, 1<<16)
		dead := false
		for b := range p.sendCh {
			if dead {
				continue
			}
			buf = append(buf[:0], b...)
		more:
			for len(buf) < 1<<15 {
				select {
				case b2, ok := <-p.sendCh:
					if !ok {
						break more
					}
					buf = append(buf, b2...)
				default:
					break more
				}
			}
			if _, err := stdin.Write(buf); err != nil {
				dead = true
			}
		}
		stdin.Close()
	}()
	go func() {
		r := bufio.NewReaderSize(pr, 1<<16)
		for {
			l, err := r.ReadString('\n')
			if l != "" {
				p.lines <- strings.TrimRight(l, "\n")
			}
			if err != nil {
				break
			}
		}
		pr.Close()
		p.done <- cmd.Wait()
		close(p.lines)
	}()
	s.proc = p
	s.procSteps = 0
	s.wIdx = -1
	s.wSince = time.Now()
	s.lastCPUAt = time.Now()
	s.lastCPU = 0
	return nil
}

func (s *c10Sup) stop() {
	if s.proc != nil {
		s.proc.sendCh <- c10Frame5('Q', nil)
		close(s.proc.sendCh)
		for l := range s.proc.lines {
			s.handleLine(l)
		}
		os.Remove(s.proc.errPath)
		s.proc = nil
	}
	if s.prog != nil {
		s.prog.Close()
		os.Remove(s.progPath)
		s.prog = nil
	}
}

func (s *c10Sup) send(m *c10Msg) {
	if m.typ == 'M' && (len(s.proc.hasBase) == 0 || &s.proc.hasBase[0] != &m.base[0]) {
		s.proc.sendCh <- c10Frame5('F', m.base)
		s.proc.hasBase = m.base
	}
	s.proc.sendCh <- m.encode()
}

func (s *c10Sup) applySkip(m *c10Msg) {
	if s.asyncSpin >= 1 && m.typ == 'M' && m.inAsync && m.upto == 0 {
		m.upto = c10StDecompile
		s.Skipped["vm/async-body-outlives-step-limit"]++
		return
	}
	if len(s.fatalOps) > 0 && (m.typ == 'M' || m.typ == 'B') && m.upto == 0 {
		if op, ok := s.containsFatal(m); ok {
			m.upto = c10StDecompile
			s.Skipped[s.fatalOps[op]]++
		}
	}
}

// Submit queues one case; it blocks (processing worker output) while the window is full.
func (s *c10Sup) Submit(m *c10Msg) {
	if s.fatal != "" || s.Aborted {
		return
	}
	if s.proc == nil {
		if err := s.start(); err != nil {
			s.fatal = "cannot start worker: " + err.Error()
			return
		}
	}
	m.idx = s.nextIdx
	s.nextIdx++
	if m.from == 0 {
		m.from = 1
	}
	s.applySkip(m)
	s.Cases++
	s.pending = append(s.pending, m)
	s.send(m)
	for len(s.pending) >= s.window && s.fatal == "" && !s.Aborted {
		s.pump()
	}
}

// containsFatal: does the file hold, anywhere, an opcode byte already shown fatal followed by an operand >= 2^22?
func (s *c10Sup) containsFatal(m *c10Msg) (byte, bool) {
	scan := func(b []byte, lo, hi int) (byte, bool) {
		if lo < 0 {
			lo = 0
		}
		for i := lo; i < hi && i+5 <= len(b); i++ {
			if _, ok := s.fatalOps[b[i]]; ok && (b[i+4] != 0 || b[i+3] >= 0x40) {
				return b[i], true
			}
		}
		return 0, false
	}
	switch {
	case m.typ == 'B':
		return scan(m.data, 0, len(m.data))
	case m.trunc:
		return 0, false // a prefix of compiler output: small operands only
	default:
		// only a window around the patch can newly form the pattern; the unpatched file is compiler output (small operands)
		b := append([]byte{}, m.base...)
		copy(b[m.off:], m.patch)
		return scan(b, int(m.off)-4, int(m.off)+len(m.patch))
	}
}

// Drain waits until every submitted case is done (a flush marker is echoed by the worker).
func (s *c10Sup) Drain() {
	for len(s.pending) > 0 && s.fatal == "" && !s.Aborted {
		if s.proc == nil {
			s.fatal = "no worker while cases are pending"
			return
		}
		if !s.flushSent {
			s.proc.sendCh <- c10Frame5('Z', nil)
			s.flushSent = true
		}
		s.pump()
	}
}

func (s *c10Sup) popBefore(idx uint32) {
	i := 0
	for i < len(s.pending) && s.pending[i].idx < idx {
		i++
	}
	s.pending = s.pending[i:]
}

func (s *c10Sup) find(idx uint32) *c10Msg {
	for _, m := range s.pending {
		if m.idx == idx {
			return m
		}
	}
	return nil
}

func (s *c10Sup) noteFatalOp(key string) {
	if !strings.HasPrefix(key, "alloc-out-of-proportion/vm-execute/Op") {
		return
	}
	name := strings.TrimPrefix(key, "alloc-out-of-proportion/vm-execute/")
	if ob := c10OpByte(name); ob != 0 {
		s.fatalOps[ob] = key
	}
}

func (s *c10Sup) handleLine(l string) {
	if l == "" {
		return
	}
	switch l[0] {
	case 'a':
		var idx uint32
		var st int64
		fmt.Sscanf(l[2:], "%d %d", &idx, &st)
		s.popBefore(idx + 1)
		s.Steps += st - s.procSteps
		s.procSteps = st
	case 'f':
		rest := l[2:]
		i := strings.IndexByte(rest, ' ')
		if i < 0 {
			return
		}
		n, _ := strconv.ParseUint(rest[:i], 10, 32)
		var f c10Finding
		if json.Unmarshal([]byte(rest[i+1:]), &f) != nil {
			return
		}
		if m := s.find(uint32(n)); m != nil {
			s.res.violate(f.Key, m.getLabel()+": "+f.Desc, m.toCase())
		}
		if f.Kind == "alloc" {
			s.noteFatalOp(f.Key)
		}
		if f.Key == "vm/async-body-outlives-step-limit" {
			s.asyncSpin++
		}
	case 'k':
		var idx uint32
		var st int
		var b uint64
		fmt.Sscanf(l[2:], "%d %d %d", &idx, &st, &b)
		if s.Stacks[idx] == nil {
			s.Stacks[idx] = map[int]uint64{}
		}
		s.Stacks[idx][st] = b
	case 'x':
		// the worker asks to be replaced after this case (a goroutine is left running)
		var idx uint32
		fmt.Sscanf(l[2:], "%d", &idx)
		s.popBefore(idx + 1)
		s.exitAsked = true
	case 'q':
		var sum struct {
			Steps    int64              `json:"steps"`
			MaxRatio map[string]float64 `json:"max_ratio"`
		}
		if json.Unmarshal([]byte(l[2:]), &sum) == nil {
			s.Steps += sum.Steps - s.procSteps
			s.procSteps = sum.Steps
			for k, v := range sum.MaxRatio {
				if v > s.MaxRatio[k] {
					s.MaxRatio[k] = v
				}
			}
		}
	case 'z': // flush marker reached: everything before it is done
		s.pending = s.pending[:0]
		s.flushSent = false
	case 'e':
		s.fatal = "worker: " + l[2:]
	}
}

func c10ProcCPU(pid int) time.Duration {
	b, err := os.ReadFile(fmt.Sprintf("/proc/%d/stat", pid))
	if err != nil {
		return 0
	}
	st := string(b)
	i := strings.LastIndex(st, ")")
	if i < 0 || i+2 >= len(st) {
		return 0
	}
	f := strings.Fields(st[i+2:])
	if len(f) < 13 {
		return 0
	}
	ut, _ := strconv.ParseInt(f[11], 10, 64)
	stt, _ := strconv.ParseInt(f[12], 10, 64)
	return time.Duration(ut+stt) * (time.Second / 100)
}

// pump processes worker output until at least one line was handled, the worker ended, or a watchdog fired.
func (s *c10Sup) pump() {
	if !s.HardStop.IsZero() && time.Now().After(s.HardStop) {
		s.abort()
		return
	}
	tick := time.NewTimer(200 * time.Millisecond)
	defer tick.Stop()
	select {
	case l, ok := <-s.proc.lines:
		if !ok {
			s.workerEnded("")
			return
		}
		s.handleLine(l)
		for i := 0; i < 512; i++ {
			select {
			case l2, ok2 := <-s.proc.lines:
				if !ok2 {
					s.workerEnded("")
					return
				}
				s.handleLine(l2)
			default:
				return
			}
		}
	case <-tick.C:
		s.watchdog()
	}
}

// abort: the run is out of time; nothing queued is judged.
func (s *c10Sup) abort() {
	s.Aborted = true
	if s.proc != nil {
		s.proc.cmd.Process.Kill()
		for range s.proc.lines {
		}
		select {
		case <-s.proc.done:
		case <-time.After(10 * time.Second):
		}
		close(s.proc.sendCh)
		os.Remove(s.proc.errPath)
		s.proc = nil
	}
	s.pending = nil
	s.flushSent = false
}

func (s *c10Sup) watchdog() {
	now := time.Now()
	cpu := c10ProcCPU(s.proc.cmd.Process.Pid)
	if cpu-s.lastCPU >= 100*time.Millisecond || s.lastCPU == 0 {
		s.lastCPU, s.lastCPUAt = cpu, now
	}
	idx, step := s.prog.Get()
	if idx != s.wIdx || step != s.wStep {
		s.wIdx, s.wStep, s.wSince, s.wCPU = idx, step, now, cpu
	}
	kill := ""
	switch {
	case idx < 0 || step == 255:
		if now.Sub(s.wSince) > 2*c10NoProgress && len(s.pending) > 0 && now.Sub(s.lastCPUAt) > c10NoProgress {
			s.proc.cmd.Process.Kill()
			s.fatal = "worker idle for " + now.Sub(s.wSince).String() + " with work queued"
		}
		return
	default:
		lim := c10CPUBase
		if m := s.find(uint32(idx)); m != nil {
			lim += time.Duration(m.inputLen()) * c10CPUPerByte
			if m.retried {
				lim *= 2
			}
		}
		if cpu-s.wCPU > lim {
			kill = fmt.Sprintf("hang: the step consumed %.0fs of CPU time and had not returned (similar inputs take micro- to milliseconds); killed", (cpu - s.wCPU).Seconds())
		} else if now.Sub(s.lastCPUAt) > c10NoProgress && now.Sub(s.wSince) > c10NoProgress {
			kill = fmt.Sprintf("blocked: the step had not returned after %.0fs and consumed no CPU for %.0fs; killed", now.Sub(s.wSince).Seconds(), now.Sub(s.lastCPUAt).Seconds())
		}
	}
	if kill != "" {
		s.proc.cmd.Process.Kill()
		for range s.proc.lines {
		}
		s.workerEnded(kill)
	}
}

// workerEnded: the worker is gone.  killed != "" when the supervisor killed it.
func (s *c10Sup) workerEnded(killed string) {
	p := s.proc
	var werr error
	select {
	case werr = <-p.done:
	case <-time.After(20 * time.Second):
	}
	close(p.sendCh)
	s.proc = nil
	stderr := ""
	if b, err := os.ReadFile(p.errPath); err == nil {
		stderr = string(b)
		if len(stderr) > 400000 {
			stderr = stderr[:200000] + "\n…\n" + stderr[len(stderr)-200000:]
		}
	}
	os.Remove(p.errPath)
	s.Restarts++
	idx, step := s.prog.Get()
	var resend []*c10Msg
	switch {
	case s.exitAsked && killed == "":
		s.exitAsked = false
		resend = s.pending
	case idx < 0 || step == 255:
		s.fatal = fmt.Sprintf("worker ended outside a case (%v, %s): %s", werr, killed, c10Tail(stderr, 2000))
		return
	default:
		s.popBefore(uint32(idx))
		m := s.find(uint32(idx))
		if m == nil {
			s.fatal = fmt.Sprintf("worker ended in unknown case %d (%v): %s", idx, werr, c10Tail(stderr, 2000))
			return
		}
		resend = s.pending
		if strings.HasPrefix(killed, "hang") && !m.retried {
			// a slow step (a large allocation on a loaded machine) is not a hang: run it once more, first
			// in a fresh worker, with twice the CPU allowance, and report what happens then
			m.retried = true
			m.from = byte(step)
			s.Retried++
			break
		}
		f := c10DeathFinding(m, step, killed, werr, stderr)
		s.res.violate(f.Key, m.getLabel()+": "+f.Desc, m.toCase())
		s.noteFatalOp(f.Key)
		// resume behind the fatal step
		if step < m.steps {
			m.from = byte(step + 1)
		} else {
			resend = resend[1:]
		}
	}
	s.pending = nil
	s.flushSent = false
	if s.Restarts > 400 {
		s.fatal = "more than 400 worker restarts in one shard"
		return
	}
	if len(resend) == 0 || s.Aborted {
		return
	}
	if err := s.start(); err != nil {
		s.fatal = "cannot start worker: " + err.Error()
		return
	}
	for _, m := range resend {
		s.applySkip(m)
		s.pending = append(s.pending, m)
		s.send(m)
	}
}

func c10Tail(s string, n int) string {
	if len(s) > n {
		return "…" + s[len(s)-n:]
	}
	return s
}

// c10DeathFinding classifies a dead (or killed) worker.
func c10DeathFinding(m *c10Msg, step int, killed string, werr error, stderr string) c10Finding {
	name := c10StepNames[m.kindName()][step]
	fam := ""
	if m.nest != nil {
		fam = "/" + m.nest.Family
	}
	if killed != "" {
		kind := "hang"
		if strings.HasPrefix(killed, "blocked") {
			kind = "blocked"
		}
		return c10Finding{Kind: "hang", Step: step, Key: fmt.Sprintf("%s/%s%s", kind, name, fam), Desc: name + " does not return: " + killed}
	}
	msg := "the process died without a Go crash report (" + fmt.Sprint(werr) + ")"
	at := -1
	lines := strings.Split(stderr, "\n")
	for i, l := range lines {
		if strings.HasPrefix(l, "fatal error: ") || strings.HasPrefix(l, "panic: ") {
			msg, at = l, i
			break
		}
	}
	fn := "unknown"
	if at >= 0 {
		fn = c10RepoFrame(strings.Join(lines[at:], "\n"))
	}
	switch {
	case strings.Contains(msg, "stack overflow"):
		return c10Finding{Kind: "died", Step: step, Key: fmt.Sprintf("stack-overflow/%s%s", name, fam),
			Desc: fmt.Sprintf("%s recurses until the goroutine stack limit (fatal error: stack overflow, which no recover() can catch: the process is gone); innermost repository frame %s", name, fn)}
	case strings.Contains(msg, "out of memory") || strings.Contains(msg, "cannot allocate memory"):
		return c10Finding{Kind: "died", Step: step, Key: fmt.Sprintf("alloc-out-of-proportion/%s/%s%s", name, c10SiteName(fn), fam),
			Desc: fmt.Sprintf("%s asks for more memory than the worker's %d GiB address space (%s) in %s: the Go runtime aborts the whole process", name, c10VLimitKiB>>20, msg, fn)}
	}
	return c10Finding{Kind: "died", Step: step, Key: fmt.Sprintf("died/%s/%s/%s%s", name, fn, c10PanicClass(msg), fam),
		Desc: fmt.Sprintf("%s: the process died (%s) in %s", name, c10First(msg), fn)}
}

func c10SortedKeys(m map[string]float64) []string {
	var ks []string
	for k := range m {
		ks = append(ks, k)
	}
	sort.Strings(ks)
	return ks
}
