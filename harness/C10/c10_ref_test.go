package decompiler

// C10 harness, part 1: an independent reader of the bytecode container (the
// layout named in the property: "GLYP", u32 version, u32 nconst, typed
// constants, u32 ninstr, opcodes with u32 LE operands) and the *observation* of
// the VM's and the decompiler's per-opcode operand widths.  Nothing in this
// file reads the implementation's opcode tables: widths are observed by
// executing / disassembling one instruction and looking where the next begins.

import (
	"encoding/binary"
	"fmt"
	"math"
	"reflect"
	"strings"
	"unsafe"

	"github.com/glyphlang/glyph/pkg/ast"
	"github.com/glyphlang/glyph/pkg/parser"
	"github.com/glyphlang/glyph/pkg/vm"
)

// ---------------------------------------------------------------- names (for keys and messages only)

var c10OpNames = map[byte]string{
	byte(vm.OpPush): "OpPush", byte(vm.OpPop): "OpPop", byte(vm.OpAdd): "OpAdd", byte(vm.OpSub): "OpSub", byte(vm.OpMul): "OpMul",
	byte(vm.OpDiv): "OpDiv", byte(vm.OpMod): "OpMod", byte(vm.OpEq): "OpEq", byte(vm.OpNe): "OpNe", byte(vm.OpLt): "OpLt",
	byte(vm.OpGt): "OpGt", byte(vm.OpGe): "OpGe", byte(vm.OpLe): "OpLe", byte(vm.OpAnd): "OpAnd", byte(vm.OpOr): "OpOr",
	byte(vm.OpNot): "OpNot", byte(vm.OpNeg): "OpNeg", byte(vm.OpLoadVar): "OpLoadVar", byte(vm.OpStoreVar): "OpStoreVar",
	byte(vm.OpJump): "OpJump", byte(vm.OpJumpIfFalse): "OpJumpIfFalse", byte(vm.OpJumpIfTrue): "OpJumpIfTrue",
	byte(vm.OpGetIter): "OpGetIter", byte(vm.OpIterNext): "OpIterNext", byte(vm.OpIterHasNext): "OpIterHasNext",
	byte(vm.OpGetIndex): "OpGetIndex", byte(vm.OpReturn): "OpReturn", byte(vm.OpCall): "OpCall", byte(vm.OpBuildObject): "OpBuildObject",
	byte(vm.OpGetField): "OpGetField", byte(vm.OpBuildArray): "OpBuildArray", byte(vm.OpHttpReturn): "OpHttpReturn",
	byte(vm.OpWsSend): "OpWsSend", byte(vm.OpWsBroadcast): "OpWsBroadcast", byte(vm.OpWsBroadcastRoom): "OpWsBroadcastRoom",
	byte(vm.OpWsJoinRoom): "OpWsJoinRoom", byte(vm.OpWsLeaveRoom): "OpWsLeaveRoom", byte(vm.OpWsClose): "OpWsClose",
	byte(vm.OpWsGetRooms): "OpWsGetRooms", byte(vm.OpWsGetClients): "OpWsGetClients", byte(vm.OpWsGetConnCount): "OpWsGetConnCount",
	byte(vm.OpWsGetUptime): "OpWsGetUptime", byte(vm.OpAsync): "OpAsync", byte(vm.OpAwait): "OpAwait", byte(vm.OpHalt): "OpHalt",
}

func c10OpName(b byte) string {
	if n, ok := c10OpNames[b]; ok {
		return n
	}
	return fmt.Sprintf("0x%02X", b)
}

// ---------------------------------------------------------------- reference reader

type c10Const struct {
	Type string // null int float bool string
	I    int64
	F    float64
	B    bool
	S    string
}

func (c c10Const) String() string {
	switch c.Type {
	case "null":
		return "null"
	case "int":
		return fmt.Sprintf("int:%d", c.I)
	case "float":
		return fmt.Sprintf("float:%x", math.Float64bits(c.F))
	case "bool":
		return fmt.Sprintf("bool:%t", c.B)
	}
	return fmt.Sprintf("string:%q", c.S)
}

func c10ConstOfValue(v vm.Value) string {
	switch x := v.(type) {
	case vm.NullValue:
		return "null"
	case vm.IntValue:
		return fmt.Sprintf("int:%d", x.Val)
	case vm.FloatValue:
		return fmt.Sprintf("float:%x", math.Float64bits(x.Val))
	case vm.BoolValue:
		return fmt.Sprintf("bool:%t", x.Val)
	case vm.StringValue:
		return fmt.Sprintf("string:%q", x.Val)
	}
	return fmt.Sprintf("?%T", v)
}

// c10File is the reference view of a bytecode file.
type c10File struct {
	Version   uint32
	Consts    []c10Const
	ConstOffs []int // file offset of each constant's tag byte
	NInstrOff int   // file offset of the instruction-length field
	NInstr    uint32
	CodeStart int
	Len       int
}

// c10ReadFile parses header and constant pool; error text says what is malformed.
func c10ReadFile(b []byte) (*c10File, error) {
	f := &c10File{Len: len(b)}
	if len(b) < 4 || string(b[:4]) != "GLYP" {
		return nil, fmt.Errorf("bad magic")
	}
	off := 4
	u32 := func() (uint32, bool) {
		if off+4 > len(b) {
			return 0, false
		}
		v := binary.LittleEndian.Uint32(b[off:])
		off += 4
		return v, true
	}
	v, ok := u32()
	if !ok {
		return nil, fmt.Errorf("truncated version")
	}
	f.Version = v
	n, ok := u32()
	if !ok {
		return nil, fmt.Errorf("truncated constant count")
	}
	for i := uint32(0); i < n; i++ {
		if off >= len(b) {
			return nil, fmt.Errorf("truncated constant %d", i)
		}
		f.ConstOffs = append(f.ConstOffs, off)
		tag := b[off]
		off++
		switch tag {
		case 0:
			f.Consts = append(f.Consts, c10Const{Type: "null"})
		case 1, 2:
			if off+8 > len(b) {
				return nil, fmt.Errorf("truncated constant %d", i)
			}
			u := binary.LittleEndian.Uint64(b[off:])
			off += 8
			if tag == 1 {
				f.Consts = append(f.Consts, c10Const{Type: "int", I: int64(u)})
			} else {
				f.Consts = append(f.Consts, c10Const{Type: "float", F: math.Float64frombits(u)})
			}
		case 3:
			if off >= len(b) {
				return nil, fmt.Errorf("truncated constant %d", i)
			}
			f.Consts = append(f.Consts, c10Const{Type: "bool", B: b[off] != 0})
			off++
		case 4:
			l, ok := u32()
			if !ok || int64(off)+int64(l) > int64(len(b)) {
				return nil, fmt.Errorf("truncated constant %d", i)
			}
			f.Consts = append(f.Consts, c10Const{Type: "string", S: string(b[off : off+int(l)])})
			off += int(l)
		default:
			return nil, fmt.Errorf("unknown constant tag 0x%02x", tag)
		}
	}
	f.NInstrOff = off
	ni, ok := u32()
	if !ok {
		return nil, fmt.Errorf("truncated instruction length")
	}
	f.NInstr = ni
	f.CodeStart = off
	return f, nil
}

// ---------------------------------------------------------------- white-box reads (reflection; no writes)

func c10VMField(m *vm.VM, name string) reflect.Value {
	f := reflect.ValueOf(m).Elem().FieldByName(name)
	if !f.IsValid() {
		panic("C10 harness: vm.VM has no field " + name + " (the harness reads pc/constants/stack white-box)")
	}
	return reflect.NewAt(f.Type(), unsafe.Pointer(f.UnsafeAddr())).Elem()
}

func c10VMPC(m *vm.VM) int             { return int(c10VMField(m, "pc").Int()) }
func c10VMConsts(m *vm.VM) []vm.Value  { return c10VMField(m, "constants").Interface().([]vm.Value) }
func c10VMHalted(m *vm.VM) bool        { return c10VMField(m, "halted").Bool() }
func c10VMStackLen(m *vm.VM) int       { return c10VMField(m, "stack").Len() }

// ---------------------------------------------------------------- observed opcode tables

// c10Tables holds, per opcode byte, what was observed.
type c10Tables struct {
	VMWidth  [256]int  // operand bytes the VM consumes (-1: inconsistent observations)
	VMKnown  [256]bool // the VM executes the byte as an instruction (does not reject it as unknown)
	VMJump   [256]bool // the VM continues at the operand value (under some prepared stack)
	DecWidth [256]int  // operand bytes the decompiler skips
	DecNamed [256]bool // the decompiler prints a mnemonic (not UNKNOWN_0x..)
	AsyncRel bool      // jump operands inside an async body are relative to the body start
	AsyncAbs bool      // ... are absolute file offsets
}

// header with no constants: code starts at 16
func c10Wrap(consts [][]byte, code []byte) []byte {
	b := []byte{'G', 'L', 'Y', 'P', 1, 0, 0, 0}
	b = binary.LittleEndian.AppendUint32(b, uint32(len(consts)))
	for _, c := range consts {
		b = append(b, c...)
	}
	b = binary.LittleEndian.AppendUint32(b, uint32(len(code)))
	return append(b, code...)
}

func c10CInt(v int64) []byte   { return binary.LittleEndian.AppendUint64([]byte{1}, uint64(v)) }
func c10CStr(s string) []byte  { return append(binary.LittleEndian.AppendUint32([]byte{4}, uint32(len(s))), s...) }
func c10CBool(v bool) []byte {
	if v {
		return []byte{3, 1}
	}
	return []byte{3, 0}
}

// prepared stacks for the single-instruction observations
func c10Preps() [][]vm.Value {
	obj := vm.ObjectValue{Val: map[string]vm.Value{"a": vm.IntValue{Val: 1}}}
	arr := vm.ArrayValue{Val: []vm.Value{vm.IntValue{Val: 1}, vm.IntValue{Val: 2}}}
	return [][]vm.Value{
		nil,
		{vm.BoolValue{Val: true}},
		{vm.BoolValue{Val: false}},
		{vm.IntValue{Val: 1}, vm.IntValue{Val: 2}},
		{vm.StringValue{Val: "a"}, vm.StringValue{Val: "b"}},
		{obj, vm.StringValue{Val: "a"}},
		{arr, vm.IntValue{Val: 0}},
		{vm.BoolValue{Val: true}, vm.BoolValue{Val: false}},
		{arr},
		{vm.IntValue{Val: 0}},
	}
}

// c10Observe builds the tables.  Every probe is one instruction
// [b, T, 0, 0, 0] followed by bytes that no party accepts as an opcode; T is
// the file offset just behind the five bytes, so that a jump opcode continues
// exactly where a non-jump opcode with a 4-byte operand continues.
func c10Observe() (*c10Tables, error) {
	t := &c10Tables{}
	const start = 16
	for bi := 0; bi < 256; bi++ {
		b := byte(bi)
		// 0x15 (=21=start+5) and 0x00 are not opcodes of anybody; checked below
		code := []byte{b, start + 5, 0, 0, 0, 0, 0, 0, 0, 0, 0}
		file := c10Wrap(nil, code)
		widths := map[int]bool{}
		for _, prep := range c10Preps() {
			m := vm.NewVM()
			m.SetWebSocketHandler(c10WS{})
			for _, v := range prep {
				m.Push(v)
			}
			_, err := m.Execute(file)
			pc := c10VMPC(m)
			if err == nil || !strings.Contains(err.Error(), "unknown opcode") {
				t.VMKnown[b] = true
			} else if pc != start+1 {
				// the unknown-opcode rejection came from a later byte: b itself was executed
				t.VMKnown[b] = true
			}
			// pc is behind the instruction (failed or halted), or one byte further
			// (the following 0x00 / 0x15 was fetched and rejected)
			ok := false
			for _, w := range []int{0, 4} {
				if pc == start+1+w || pc == start+1+w+1 {
					// width 0 and pc==start+2 means the operand byte 0x15 was rejected as an opcode
					widths[w] = true
					ok = true
					break
				}
			}
			if !ok {
				widths[-1] = true
			}
		}
		switch {
		case len(widths) == 1 && widths[0]:
			t.VMWidth[b] = 0
		case len(widths) == 1 && widths[4]:
			t.VMWidth[b] = 4
		default:
			t.VMWidth[b] = -1
		}
		// jump observation: operand = start+9 (skips four bytes); a jump continues there
		if t.VMWidth[b] == 4 {
			code2 := []byte{b, start + 9, 0, 0, 0, 0, 0, 0, 0, 0, 0}
			file2 := c10Wrap(nil, code2)
			for _, prep := range c10Preps() {
				m := vm.NewVM()
				for _, v := range prep {
					m.Push(v)
				}
				m.Execute(file2)
				if pc := c10VMPC(m); pc == start+9 || pc == start+10 {
					t.VMJump[b] = true
				}
			}
		}
		// decompiler
		d, err := NewDecompiler().Decompile(file)
		if err != nil || len(d.Instructions) < 2 {
			t.DecWidth[b] = -1
		} else {
			t.DecWidth[b] = d.Instructions[1].Offset - 1
			t.DecNamed[b] = !strings.HasPrefix(d.Instructions[0].Opcode, "UNKNOWN")
		}
	}
	if t.VMKnown[0x00] || t.VMKnown[0x15] {
		return nil, fmt.Errorf("probe bytes 0x00/0x15 are opcodes now; the single-instruction probes need other filler bytes")
	}
	// frame base of jump operands inside an async body (observed):
	//   ASYNC 17 | 0: JUMP T  5: PUSH c0  10: HALT  11: PUSH c1  16: HALT | AWAIT HALT
	run := func(target uint32) string {
		body := []byte{byte(vm.OpJump)}
		body = binary.LittleEndian.AppendUint32(body, target)
		body = append(body, byte(vm.OpPush), 0, 0, 0, 0, byte(vm.OpHalt), byte(vm.OpPush), 1, 0, 0, 0, byte(vm.OpHalt))
		code := binary.LittleEndian.AppendUint32([]byte{byte(vm.OpAsync)}, uint32(len(body)))
		code = append(code, body...)
		code = append(code, byte(vm.OpAwait), byte(vm.OpHalt))
		m := vm.NewVM()
		m.SetMaxSteps(1000)
		v, err := m.Execute(c10Wrap([][]byte{c10CInt(111), c10CInt(222)}, code))
		if err != nil {
			return "err"
		}
		return c10ConstOfValue(v)
	}
	hdr := len(c10Wrap([][]byte{c10CInt(111), c10CInt(222)}, nil))
	t.AsyncRel = run(11) == "int:222"
	t.AsyncAbs = run(uint32(hdr+5+11)) == "int:222"
	return t, nil
}

// c10WS is a do-nothing WebSocket context so that the Ws* opcodes execute.
type c10WS struct{}

func (c10WS) Send(message interface{}) error                         { return nil }
func (c10WS) Broadcast(message interface{}) error                    { return nil }
func (c10WS) BroadcastToRoom(room string, message interface{}) error { return nil }
func (c10WS) JoinRoom(room string) error                             { return nil }
func (c10WS) LeaveRoom(room string) error                            { return nil }
func (c10WS) Close(reason string) error                              { return nil }
func (c10WS) GetRooms() []string                                     { return []string{"r1", "r2"} }
func (c10WS) GetRoomClients(room string) []string                    { return []string{"c1"} }
func (c10WS) GetConnectionID() string                                { return "c1" }
func (c10WS) GetConnectionCount() int                                { return 1 }
func (c10WS) GetUptime() int64                                       { return 7 }

// ---------------------------------------------------------------- instruction walk

type c10Instr struct {
	Off     int // file offset
	Op      byte
	Operand uint32
	HasOp   bool
	Frame   int // index into frames (0 = main code)
}

type c10Frame struct {
	Start, End int // file offsets [Start, End)
	Parent     int
}

// c10Walk walks the code linearly with the VM-observed widths.  Async bodies are
// inline, so the linear walk also covers them; frames record their extent.
func c10Walk(t *c10Tables, b []byte, f *c10File) (ins []c10Instr, frames []c10Frame, err error) {
	end := len(b)
	frames = []c10Frame{{Start: f.CodeStart, End: end, Parent: -1}}
	cur := 0
	off := f.CodeStart
	for off < end {
		for cur != 0 && off >= frames[cur].End {
			if off != frames[cur].End {
				return ins, frames, fmt.Errorf("async body [%d,%d) does not end on an instruction boundary", frames[cur].Start, frames[cur].End)
			}
			cur = frames[cur].Parent
		}
		op := b[off]
		w := t.VMWidth[op]
		if !t.VMKnown[op] || w < 0 {
			return ins, frames, fmt.Errorf("byte 0x%02X at offset %d is not an instruction the VM executes", op, off)
		}
		in := c10Instr{Off: off, Op: op, Frame: cur}
		if w == 4 {
			if off+5 > end {
				return ins, frames, fmt.Errorf("operand of %s at offset %d is cut off", c10OpName(op), off)
			}
			in.HasOp, in.Operand = true, binary.LittleEndian.Uint32(b[off+1:])
		}
		ins = append(ins, in)
		off += 1 + w
		if op == byte(vm.OpAsync) {
			bodyEnd := int64(off) + int64(in.Operand)
			if bodyEnd > int64(frames[cur].End) {
				return ins, frames, fmt.Errorf("async body at offset %d (length %d) extends beyond its enclosing code", in.Off, in.Operand)
			}
			frames = append(frames, c10Frame{Start: off, End: int(bodyEnd), Parent: cur})
			cur = len(frames) - 1
		}
	}
	for cur != 0 {
		if off != frames[cur].End {
			return ins, frames, fmt.Errorf("async body [%d,%d) does not end on an instruction boundary", frames[cur].Start, frames[cur].End)
		}
		cur = frames[cur].Parent
	}
	return ins, frames, nil
}

func c10ParseSource(src string) (*ast.Module, error) {
	toks, err := parser.NewLexer(src).Tokenize()
	if err != nil {
		return nil, err
	}
	return parser.NewParser(toks).Parse()
}
