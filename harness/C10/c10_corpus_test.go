package decompiler

// C10 harness, part 2: the program corpus (every statement / expression form
// the compiler lowers, instantiated combinatorially) and the round-trip check
// of what the compiler emits: reference reader == VM loader == decompiler on
// constants, instruction boundaries and jump targets.

import (
	"bytes"
	"fmt"
	"regexp"
	"sort"
	"strings"

	"github.com/glyphlang/glyph/pkg/ast"
	"github.com/glyphlang/glyph/pkg/compiler"
	"github.com/glyphlang/glyph/pkg/vm"
)

type c10Expr struct {
	Ty  string // num str bool arr obj any
	Src string
}

func c10Exprs() []c10Expr {
	var es []c10Expr
	add := func(ty string, srcs ...string) {
		for _, s := range srcs {
			es = append(es, c10Expr{ty, s})
		}
	}
	add("num", "1", "2.5", "n", "n + 1", "n - 1", "n * 2", "n / 2", "n % 2", "-n", "(n + 1) * 2", "length(a)", "a[0]", "o.k", "input.o.k",
		"input.a[1]", "now()", "ws.get_connection_count()", "ws.get_uptime()", "ws.get_room_count()", "ws.get_room_user_count(\"r1\")")
	add("str", "\"lit\"", "s", "s + \"x\"", "upper(s)", "id")
	add("bool", "true", "false", "b", "n == 1", "n != 1", "n < 1", "n > 1", "n <= 1", "n >= 1", "b && true", "b || false", "!b", "s == \"ab\"")
	add("arr", "[n, 2, 3]", "[]", "a", "a + [1]", "[[1], [n]]", "ws.get_rooms()", "ws.get_room_clients(\"r1\")")
	add("obj", "{k: n, j: \"s\"}", "{}", "o", "{k: {j: [1]}}")
	add("any", "null", "o[\"k\"]",
		"match n {\n    1 => \"one\"\n    \"a\" => 2\n    2.5 => 3\n    true => 4\n    null => 5\n    _ => 0\n  }",
		"match a {\n    [p] => p\n    [p, q] => q\n    [p, ...rest] => rest\n    _ => 0\n  }",
		"match o {\n    {k} => k\n    {k: 1} => 1\n    {k: [q]} => q\n    m when n > 1 => m\n    _ => 0\n  }",
		"await async {\n    > n + 1\n  }",
		"async {\n    > 1\n  }")
	return es
}

// statement templates; %E is the slot, Ty the slot's type.
type c10Stmt struct {
	Name  string
	Ty    string // slot type ("" = any type fits)
	Lines []string
}

func c10Stmts() []c10Stmt {
	return []c10Stmt{
		{"return", "", []string{"> %E"}},
		{"assign", "", []string{"$ y = %E", "> y"}},
		{"reassign", "", []string{"$ y = 0", "y = %E", "> y"}},
		{"return-status", "", []string{"> %E :: 201"}},
		{"if-else", "bool", []string{"if %E {", "  > 1", "} else {", "  > 2", "}"}},
		{"if", "bool", []string{"$ y = 0", "if %E {", "  y = 1", "}", "> y"}},
		{"else-if", "bool", []string{"if n > 7 {", "  > 1", "} else if %E {", "  > 2", "} else {", "  > 3", "}"}},
		{"while", "", []string{"$ i = 0", "while i < 3 {", "  i = i + 1", "  $ t = %E", "}", "> i"}},
		{"while-break-continue", "bool", []string{"$ i = 0", "$ c = 0", "while true {", "  i = i + 1", "  if i > 4 {", "    break", "  }", "  if %E {", "    continue", "  }", "  c = c + 1", "}", "> c"}},
		{"for", "arr", []string{"$ acc = 0", "for v in %E {", "  acc = acc + 1", "}", "> acc"}},
		{"for-key", "obj", []string{"$ acc = \"\"", "for k, v in %E {", "  acc = acc + k", "}", "> acc"}},
		{"for-index", "arr", []string{"$ acc = 0", "for j, v in %E {", "  acc = acc + j", "}", "> acc"}},
		{"for-break-continue", "arr", []string{"$ acc = 0", "for v in %E {", "  if acc > 1 {", "    break", "  }", "  if b {", "    acc = acc + 2", "    continue", "  }", "  acc = acc + 1", "}", "> acc"}},
		{"switch", "", []string{"switch %E {", "  case 1 {", "    > 1", "  }", "  case \"a\" {", "    > 2", "  }", "  default {", "    > 3", "  }", "}", "> 4"}},
		{"switch-nodefault", "", []string{"$ y = 0", "switch %E {", "  case 5 {", "    y = 1", "  }", "  case n {", "    y = 2", "  }", "}", "> y"}},
		{"guard", "bool", []string{"? %E :: 404 \"no\"", "> 1"}},
		{"validate", "", []string{"? validate(%E)", "> 1"}},
		{"expr-stmt", "", []string{"upper(%E)", "> 1"}},
		{"ws-stmts", "", []string{"ws.send(%E)", "ws.broadcast(%E)", "ws.broadcast_to_room(\"r1\", %E)", "ws.join(\"r1\")", "ws.leave(\"r1\")", "> 1"}},
		{"ws-close", "", []string{"ws.close(%E)", "ws.close()", "> 1"}},
		{"async-await", "", []string{"$ f = async {", "  $ t = %E", "  > t", "}", "$ r = await f", "> r"}},
		{"async-if", "bool", []string{"$ f = async {", "  if %E {", "    > 1", "  } else {", "    > 2", "  }", "}", "> await f"}},
		{"async-while", "", []string{"$ f = async {", "  $ i = 0", "  while i < 3 {", "    i = i + 1", "    $ t = %E", "  }", "  > i", "}", "> await f"}},
		{"async-for", "arr", []string{"$ f = async {", "  $ acc = 0", "  for v in %E {", "    acc = acc + 1", "  }", "  > acc", "}", "> await f"}},
		{"async-nested", "", []string{"$ f = async {", "  $ g = async {", "    if b {", "      > %E", "    }", "    > 0", "  }", "  > await g", "}", "> await f"}},
		{"async-unawaited", "", []string{"$ f = async {", "  > %E", "}", "> 1"}},
		{"no-return", "", []string{"$ y = %E"}},
	}
}

var c10WordRE = regexp.MustCompile(`[A-Za-z_][A-Za-z0-9_]*`)

type c10Prog struct {
	Name string
	Src  string
}

func c10Render(name string, lines []string) c10Prog {
	body := strings.Join(lines, "\n")
	used := map[string]bool{}
	// strip string literals before looking for identifiers
	noStr := regexp.MustCompile(`"[^"]*"`).ReplaceAllString(body, `""`)
	for _, w := range c10WordRE.FindAllString(noStr, -1) {
		used[w] = true
	}
	var sb strings.Builder
	sb.WriteString("@ POST /c/:id {\n")
	for _, v := range []string{"n", "s", "a", "o", "b"} {
		if used[v] {
			fmt.Fprintf(&sb, "  $ %s = input.%s\n", v, v)
		}
	}
	for _, l := range lines {
		for _, ll := range strings.Split(l, "\n") {
			sb.WriteString("  " + ll + "\n")
		}
	}
	sb.WriteString("}\n")
	return c10Prog{Name: name, Src: sb.String()}
}

func c10Fill(st c10Stmt, e string) []string {
	out := make([]string, len(st.Lines))
	for i, l := range st.Lines {
		out[i] = strings.ReplaceAll(l, "%E", e)
	}
	return out
}

// c10Programs: quick = every expression in the first two statement templates
// and every statement template with every expression of its slot type limited
// to three representatives; thorough = every template x every fitting
// expression, plus every ordered pair of templates (default expressions).
func c10Programs(thorough bool) []c10Prog {
	es, sts := c10Exprs(), c10Stmts()
	var ps []c10Prog
	seen := map[string]bool{}
	add := func(p c10Prog) {
		if !seen[p.Src] {
			seen[p.Src] = true
			ps = append(ps, p)
		}
	}
	fits := func(st c10Stmt, e c10Expr) bool { return st.Ty == "" || st.Ty == e.Ty }
	for si, st := range sts {
		k := 0
		for _, e := range es {
			if !fits(st, e) {
				continue
			}
			if !thorough && si >= 2 && k >= 3 {
				break
			}
			// for "any type" slots of later templates use a spread of types in the quick tier
			if !thorough && si >= 2 && st.Ty == "" {
				pick := map[int]string{0: "n + 1", 1: "[n, 2, 3]", 2: "{k: n, j: \"s\"}"}
				add(c10Render(st.Name+"/"+pick[k], c10Fill(st, pick[k])))
				k++
				continue
			}
			add(c10Render(st.Name+"/"+e.Src, c10Fill(st, e.Src)))
			k++
		}
	}
	def := map[string]string{"": "n + 1", "bool": "n > 1", "arr": "[n, 2, 3]", "obj": "{k: n, j: \"s\"}"}
	if thorough {
		strip := func(ls []string) []string { // drop a trailing return so that the second statement is reached
			var out []string
			for _, l := range ls {
				if !strings.HasPrefix(l, "> ") {
					out = append(out, l)
				}
			}
			return out
		}
		ren := func(ls []string, suffix string) []string { // keep declared names distinct
			out := make([]string, len(ls))
			for i, l := range ls {
				for _, v := range []string{"y", "i", "c", "acc", "t", "f", "g", "r"} {
					l = regexp.MustCompile(`\b`+v+`\b`).ReplaceAllString(l, v+suffix)
				}
				out[i] = l
			}
			return out
		}
		for _, s1 := range sts {
			for _, s2 := range sts {
				l1 := ren(strip(c10Fill(s1, def[s1.Ty])), "1")
				l2 := ren(c10Fill(s2, def[s2.Ty]), "2")
				add(c10Render(s1.Name+"+"+s2.Name, append(l1, l2...)))
			}
		}
	}
	// a route without a body, a larger route, and the other compile entry points share the same lowering
	add(c10Render("empty", nil))
	add(c10Render("mixed", []string{
		"$ total = 0", "for j, v in a {", "  if v % 2 == 0 {", "    total = total + v * j", "  } else {", "    total = total - 1", "  }", "}",
		"$ label = match total {", "  0 => \"zero\"", "  t when t > 0 => \"pos\"", "  _ => \"neg\"", "}",
		"switch label {", "  case \"pos\" {", "    > {total: total, label: upper(label), items: [total, length(a)]} :: 201", "  }", "  default {", "    ? total >= 0 - 100 :: 400", "  }", "}",
		"> {label: label, o: o.k, first: a[0]}",
	}))
	// constant-pool sweep: the same control-flow-rich body behind P distinct padding constants, for every P such that each
	// operand of the body (constant and variable-name indices) takes every byte value that is also an opcode with or without
	// operand (0x01 .. 0xB1): a table walker that misjudges one operand width re-synchronises on most small operands and only
	// derails on such values. Round trip only (part 1); the fault enumeration of part 5 skips these files.
	for _, pad := range c10PoolPads(thorough) {
		var nums []string
		for k := 0; k < pad; k++ {
			nums = append(nums, fmt.Sprint(1000+k))
		}
		lines := []string{}
		if pad > 0 {
			lines = append(lines, "$ pad = ["+strings.Join(nums, ", ")+"]")
		}
		lines = append(lines,
			"$ total = 0", "for j, v in a {", "  if v % 2 == 0 {", "    total = total + v * j", "  } else {", "    total = total - 1", "  }", "}",
			"for w in a {", "  total = total + w", "}",
			"$ i = 0", "while i < 3 {", "  i = i + 1", "}",
			"$ f = async {", "  if b {", "    > 7", "  }", "  > 0", "}",
			"> {t: total, i: i, f: await f, m: length(a)}")
		add(c10Render(fmt.Sprintf("%s%d", c10PoolPrefix, pad), lines))
	}
	// operand sweep for the counted instructions: object literals with n fields, array literals with n elements and
	// calls with n arguments, each directly followed by a jump (the then-branch of an if/else, a match arm), for every n
	// that is also an opcode value. Round trip only.
	for _, n := range c10CountSweep(thorough) {
		var fields, elems []string
		for k := 0; k < n; k++ {
			fields = append(fields, fmt.Sprintf("f%d: %d", k, k))
			elems = append(elems, fmt.Sprint(k))
		}
		add(c10Render(fmt.Sprintf("%scount-%d", c10PoolPrefix, n), []string{
			"$ y = 0", "$ z = 0",
			"if b {", "  y = {" + strings.Join(fields, ", ") + "}", "} else {", "  y = 1", "}",
			"if b {", "  z = [" + strings.Join(elems, ", ") + "]", "} else {", "  z = 2", "}",
			"$ r = match n {", "  1 => {" + strings.Join(fields, ", ") + "}", "  _ => [" + strings.Join(elems, ", ") + "]", "}",
			"> {y: y, z: length(z), r: r}"}))
	}
	add(c10Render(c10PoolPrefix+"match-arm-one-field-object", []string{"$ r = match n {", "  5 => {k: n}", "  6 => {j: s}", "  _ => {d: 0}", "}", "> r"}))
	return ps
}

// c10CountSweep: operand values of BUILD_OBJECT / BUILD_ARRAY that coincide with opcode bytes (quick: those with an
// operand or that jump, and their neighbours; thorough: every count 0..190)
func c10CountSweep(thorough bool) []int {
	if thorough {
		var out []int
		for k := 0; k <= 190; k++ {
			out = append(out, k)
		}
		return out
	}
	return []int{0, 1, 2, 3, 0x10, 0x28, 0x40, 0x41, 0x42, 0x4f, 0x50, 0x51, 0x52, 0x53, 0x54, 0x55, 0x56, 0x61, 0x62, 0x63, 0x70, 0x71, 0x80, 0x81, 0x90, 0xa0, 0xb0, 0xb1}
}

const c10PoolPrefix = "pool/"

// c10PoolPads: quick = the paddings that put the body's first own constant on each opcode value the VM defines (and the
// neighbours), thorough = every padding 0..190.
func c10PoolPads(thorough bool) []int {
	var out []int
	if thorough {
		for k := 0; k <= 190; k++ {
			out = append(out, k)
		}
		return out
	}
	seen := map[int]bool{}
	for _, op := range []int{0x01, 0x02, 0x10, 0x20, 0x28, 0x40, 0x41, 0x50, 0x51, 0x52, 0x53, 0x54, 0x55, 0x56, 0x61, 0x62, 0x70, 0x71, 0x80, 0x90, 0xA0, 0xB0, 0xB1} {
		for d := -12; d <= 0; d++ { // the body owns about a dozen constants: let each of them land on op
			if k := op + d; k >= 0 && !seen[k] {
				seen[k] = true
				out = append(out, k)
			}
		}
	}
	sort.Ints(out)
	return out
}

// c10Inputs: the locals the compiled handler would inject (prep 0) and two variations.
func c10Locals(prep int) map[string]vm.Value {
	iv := func(i int64) vm.Value { return vm.IntValue{Val: i} }
	arr := vm.ArrayValue{Val: []vm.Value{iv(4), iv(5), iv(6)}}
	obj := vm.ObjectValue{Val: map[string]vm.Value{"k": iv(1), "j": vm.StringValue{Val: "x"}}}
	in := map[string]vm.Value{"n": iv(5), "s": vm.StringValue{Val: "ab"}, "a": arr, "o": obj, "b": vm.BoolValue{Val: true}}
	switch prep {
	case 1:
		in = map[string]vm.Value{"n": iv(1), "s": vm.StringValue{Val: ""}, "a": vm.ArrayValue{Val: []vm.Value{}}, "o": vm.ObjectValue{Val: map[string]vm.Value{"k": arr}}, "b": vm.BoolValue{Val: false}}
	case 2:
		in = map[string]vm.Value{}
	}
	return map[string]vm.Value{
		"input":   vm.ObjectValue{Val: in},
		"query":   vm.ObjectValue{Val: map[string]vm.Value{"q": vm.StringValue{Val: "x"}}},
		"headers": vm.ObjectValue{Val: map[string]vm.Value{"h": vm.StringValue{Val: "v"}}},
		"id":      vm.StringValue{Val: "7"},
	}
}

const c10NPreps = 3

func c10NewVM(prep int, maxSteps int) *vm.VM {
	m := vm.NewVM()
	m.SetMaxSteps(maxSteps)
	m.SetWebSocketHandler(c10WS{})
	lp := prep
	if prep >= 10 {
		lp = 0
	}
	for k, v := range c10Locals(lp) {
		m.SetLocal(k, v)
	}
	if prep >= 10 {
		for _, v := range c10StackPrep(prep - 10) {
			m.Push(v)
		}
	}
	return m
}

// ---------------------------------------------------------------- compiled corpus

type c10BC struct {
	Prog  c10Prog
	Opt   int
	Bytes []byte
}

var c10OptLevels = []compiler.OptimizationLevel{compiler.OptNone, compiler.OptBasic, compiler.OptAggressive}

func c10ParseRoute(src string) (*ast.Route, error) {
	mod, err := c10ParseSource(src)
	if err != nil {
		return nil, err
	}
	for _, it := range mod.Items {
		if r, ok := it.(*ast.Route); ok {
			return r, nil
		}
	}
	return nil, fmt.Errorf("no route")
}

// c10Compile compiles every program at every level; files are deduplicated by
// content.  rejected lists programs the front end refuses (reported, not judged).
func c10Compile(ps []c10Prog) (files []c10BC, rejected []string) {
	seen := map[string]bool{}
	for _, p := range ps {
		for oi, lvl := range c10OptLevels {
			r, err := c10ParseRoute(p.Src)
			if err != nil {
				rejected = append(rejected, p.Name+": parse: "+c10First(err.Error()))
				break
			}
			bc, err := compiler.NewCompilerWithOptLevel(lvl).CompileRoute(r)
			if err != nil {
				rejected = append(rejected, fmt.Sprintf("%s: compile(opt %d): %s", p.Name, oi, c10First(err.Error())))
				continue
			}
			if seen[string(bc)] {
				continue
			}
			seen[string(bc)] = true
			files = append(files, c10BC{Prog: p, Opt: oi, Bytes: bc})
		}
	}
	return
}

func c10First(s string) string {
	s = strings.TrimSpace(s)
	if i := strings.Index(s, "\n"); i >= 0 {
		s = s[:i]
	}
	if len(s) > 160 {
		s = s[:160]
	}
	return s
}

// ---------------------------------------------------------------- round trip

type c10RTFinding struct {
	Key  string
	Desc string
}

// c10RoundTrip judges one emitted file.
func c10RoundTrip(t *c10Tables, bc c10BC, emitted map[byte]bool) (fs []c10RTFinding) {
	b := bc.Bytes
	where := fmt.Sprintf("program %q (opt level %d, %d bytes)", bc.Prog.Name, bc.Opt, len(b))
	bad := func(key, f string, a ...any) {
		fs = append(fs, c10RTFinding{Key: key, Desc: where + ": " + fmt.Sprintf(f, a...) + " | source: " + strings.ReplaceAll(bc.Prog.Src, "\n", " ⏎ ")})
	}
	f, err := c10ReadFile(b)
	if err != nil {
		bad("emitted/container-malformed", "the emitted file does not follow the container layout: %v", err)
		return
	}
	if f.Version != 1 {
		bad("emitted/container-malformed", "version field is %d", f.Version)
	}
	if int(f.NInstr) != len(b)-f.CodeStart {
		bad("emitted/instruction-length-field", "instruction-length field says %d, %d code bytes follow", f.NInstr, len(b)-f.CodeStart)
	}
	ins, frames, werr := c10Walk(t, b, f)
	if werr != nil {
		bad("emitted/walk", "walking the code with the operand widths the VM uses fails: %v", werr)
		return
	}
	boundary := map[int]bool{len(b): true}
	for _, in := range ins {
		boundary[in.Off] = true
		emitted[in.Op] = true
	}
	// constants: VM loader and decompiler against the reference reader
	var ref []string
	for _, c := range f.Consts {
		ref = append(ref, c.String())
	}
	m := c10NewVM(0, 1)
	func() {
		defer func() { recover() }()
		m.Execute(b)
	}()
	var got []string
	for _, v := range c10VMConsts(m) {
		got = append(got, c10ConstOfValue(v))
	}
	if strings.Join(ref, "\x00") != strings.Join(got, "\x00") {
		bad("vm/constants-differ", "the VM loaded constants %v, the file holds %v", got, ref)
	}
	// operand sanity of what was emitted: constant indices
	for _, in := range ins {
		switch in.Op {
		case byte(vm.OpPush), byte(vm.OpLoadVar), byte(vm.OpStoreVar):
			if int(in.Operand) >= len(f.Consts) {
				bad("emitted/constant-index/"+c10OpName(in.Op), "%s at offset %d refers to constant %d of %d", c10OpName(in.Op), in.Off, in.Operand, len(f.Consts))
			} else if in.Op != byte(vm.OpPush) && f.Consts[in.Operand].Type != "string" {
				bad("emitted/constant-index/"+c10OpName(in.Op), "%s at offset %d names constant %d which is not a string", c10OpName(in.Op), in.Off, in.Operand)
			}
		}
	}
	// jump targets are instruction boundaries of the frame the VM executes them in
	for _, in := range ins {
		if !t.VMJump[in.Op] {
			continue
		}
		fr := frames[in.Frame]
		target := int64(in.Operand)
		kind := "main"
		if in.Frame != 0 {
			kind = "async-body"
			if t.AsyncRel {
				target += int64(fr.Start)
			}
		}
		if target < int64(fr.Start) || target > int64(fr.End) || !boundary[int(target)] {
			rel := ""
			if in.Frame != 0 {
				rel = fmt.Sprintf(" (the VM runs an async body as its own code buffer, so the operand is taken relative to the body start %d; body is [%d,%d))", fr.Start, fr.Start, fr.End)
			}
			bad("emitted/jump-target/"+kind, "%s at offset %d has operand %d%s: not an instruction boundary of the code it runs in [%d,%d]", c10OpName(in.Op), in.Off, in.Operand, rel, fr.Start, fr.End)
			break
		}
	}
	// decompiler: constants and boundaries
	var d *DecompiledOutput
	var derr error
	func() {
		defer func() {
			if r := recover(); r != nil {
				derr = fmt.Errorf("panic: %v", r)
			}
		}()
		d, derr = NewDecompiler().Decompile(b)
	}()
	if derr != nil {
		bad("decompile/rejects-emitted", "Decompile fails on compiler output: %v", derr)
		return
	}
	if len(d.Constants) != len(f.Consts) {
		bad("decompile/constants-differ", "Decompile lists %d constants, the file holds %d", len(d.Constants), len(f.Consts))
	} else {
		for i, c := range d.Constants {
			want := ""
			switch f.Consts[i].Type {
			case "null":
				want = "null"
			case "int":
				want = fmt.Sprintf("%d", f.Consts[i].I)
			case "float":
				want = fmt.Sprintf("%g", f.Consts[i].F)
			case "bool":
				want = fmt.Sprintf("%t", f.Consts[i].B)
			case "string":
				want = fmt.Sprintf("%q", f.Consts[i].S)
			}
			if c.Type != f.Consts[i].Type || c.Value != want || c.Index != i {
				bad("decompile/constants-differ", "constant %d is %s %s in the file, Decompile shows [%d] %s %s", i, f.Consts[i].Type, want, c.Index, c.Type, c.Value)
				break
			}
		}
	}
	for i := 0; i < len(ins) || i < len(d.Instructions); i++ {
		if i >= len(ins) || i >= len(d.Instructions) || d.Instructions[i].Offset+f.CodeStart != ins[i].Off {
			// attribute to the instruction before the first divergence
			cause := "start"
			if i > 0 && i-1 < len(ins) {
				cause = c10OpName(ins[i-1].Op)
			}
			gotOff := "none"
			if i < len(d.Instructions) {
				gotOff = fmt.Sprint(d.Instructions[i].Offset + f.CodeStart)
			}
			wantOff := "none"
			if i < len(ins) {
				wantOff = fmt.Sprint(ins[i].Off)
			}
			bad("decompile/instruction-boundaries/after-"+cause, "instruction %d: the VM's next instruction starts at file offset %s, Decompile continues at %s (after %s: VM operand width %d, decompiler %d); %d instructions in the file, %d disassembled",
				i, wantOff, gotOff, cause, t.VMWidth[c10OpByte(cause)], t.DecWidth[c10OpByte(cause)], len(ins), len(d.Instructions))
			break
		}
	}
	decAt := map[int]string{}
	for _, di := range d.Instructions {
		decAt[di.Offset+f.CodeStart] = di.Opcode
	}
	for _, in := range ins {
		if n, ok := decAt[in.Off]; ok && strings.HasPrefix(n, "UNKNOWN") {
			bad("decompile/no-mnemonic/"+c10OpName(in.Op), "%s at offset %d, an instruction the compiler emitted and the VM executes, is disassembled as %s", c10OpName(in.Op), in.Off, n)
		}
	}
	// dynamic: every program counter the VM passes through is an instruction boundary of the main code
	for prep := 0; prep < 2; prep++ {
		prev := -1
		for k := 1; k <= 600; k++ {
			m := c10NewVM(prep, k)
			var xerr error
			func() {
				defer func() {
					if r := recover(); r != nil {
						xerr = fmt.Errorf("panic: %v", r)
					}
				}()
				_, xerr = m.Execute(b)
			}()
			pc := c10VMPC(m)
			limited := xerr != nil && strings.Contains(xerr.Error(), "maximum step limit")
			if pc >= f.CodeStart && !boundary[pc] {
				bad("vm/pc-off-boundary", "after %d steps (locals %d) the program counter is %d, which is inside an instruction", k+1, prep, pc)
				return
			}
			if xerr != nil && strings.HasPrefix(xerr.Error(), "panic:") {
				bad("vm/panic-on-emitted", "executing compiler output panics: %v", xerr)
				return
			}
			if !limited {
				break
			}
			prev = pc
		}
		_ = prev
	}
	return
}

func c10OpByte(name string) byte {
	for b, n := range c10OpNames {
		if n == name {
			return b
		}
	}
	return 0
}

// opcodes defined by the VM (observed) that no corpus file contains
func c10NeverEmitted(t *c10Tables, emitted map[byte]bool) []string {
	var out []string
	for b := 0; b < 256; b++ {
		if t.VMKnown[b] && !emitted[byte(b)] {
			out = append(out, c10OpName(byte(b)))
		}
	}
	sort.Strings(out)
	return out
}

var _ = bytes.Equal
