package decompiler

// Verification harness for C10 (malformed source and bytecode are rejected,
// never mis-executed).  Injected into cmd/glyph (the package that reaches lexer,
// parser, formatter, compiler, VM and decompiler).
//
//   c10_ref_test.go     independent container reader, observed opcode tables, instruction walk
//   c10_corpus_test.go  program corpus, round trip of compiler output
//   c10_cases_test.go   fault / sequence / token / byte / nesting case spaces
//   c10_worker_test.go  disposable workers (ulimit -v) and their supervisor

import (
	"fmt"
	"os"
	"runtime"
	"runtime/metrics"
	"sort"
	"strings"
	"testing"
	"time"

	"github.com/glyphlang/glyph/internal/verif/vk"
	"github.com/glyphlang/glyph/pkg/ast"
	"github.com/glyphlang/glyph/pkg/compiler"
	"github.com/glyphlang/glyph/pkg/parser"
	"github.com/glyphlang/glyph/pkg/vm"
)

type c10Replay struct {
	Part string   `json:"part"` // case | roundtrip
	Key  string   `json:"key"`
	Case *c10Case `json:"case,omitempty"`
	Prog *c10Prog `json:"prog,omitempty"`
	Opt  int      `json:"opt,omitempty"`
}

func c10MsgOfCase(c c10Case) *c10Msg {
	switch c.Kind {
	case "bc":
		return &c10Msg{typ: 'B', prep: byte(c.Prep), data: c.Data, label: c.Label, steps: 2}
	case "src":
		return &c10Msg{typ: 'S', mask: byte(c.Steps), data: c.Data, label: c.Label, steps: 5}
	case "nest":
		return &c10Msg{typ: 'N', mask: byte(c.Steps), nest: c.Nest, label: c.Label, steps: 5}
	}
	return nil
}

func TestVerif_C10(t *testing.T) {
	if os.Getenv("C10_WORKER") != "" {
		c10WorkerMain()
		return
	}
	if f := os.Getenv("C10_PROBE"); f != "" {
		c10Probe(f)
		return
	}
	p := vk.Env()
	res := vk.NewResult("bytecode: every file the compiler emits for the program corpus (statement templates x expression forms, three optimisation levels, deduplicated) is compared between an independent container reader, the VM loader and the decompiler (constants, instruction boundaries, jump targets, visited program counters), then every truncation, every byte x {00,01,7f,80,ff,+1,-1}, every u32 field x {0,1,n-1,n,n+1,2^31-1,2^31,2^32-1} and every jump operand x every file offset of each file, all instruction sequences up to the length bound over every opcode the VM accepts plus two it rejects with boundary operands on six prepared stacks, and all byte strings up to the length bound as a file and behind a valid header go through Decompile and Execute (step limit 10^4) in a disposable worker; source: every token sequence up to the length bound over the token alphabet in three contexts, every byte string up to the length bound in three contexts and every nesting family at depths 10^1..10^k go through both lexers, the parser, the text tools, the AST formatter and compile+run. distinct = distinct case contents")
	scratch := os.Getenv("VERIF_SCRATCH_DIR")
	if scratch == "" {
		scratch = os.TempDir()
	}
	if p.Thorough {
		c10VLimitKiB = 6 * 1024 * 1024
	}
	tb, err := c10Observe()
	if err != nil {
		t.Fatalf("C10: %v", err)
	}
	if !tb.AsyncRel && !tb.AsyncAbs {
		t.Fatalf("C10: cannot observe how the VM interprets jump operands inside an async body")
	}
	sink := &c10ResultSink{violate: func(key, desc string, c c10Case) {
		cc := c
		res.Violate(key, desc, c10Replay{Part: "case", Key: key, Case: &cc})
	}}

	if p.Replay != "" {
		var rp c10Replay
		if err := vk.LoadReplay(p.Replay, &rp); err != nil {
			t.Fatal(err)
		}
		ok := false
		switch rp.Part {
		case "roundtrip":
			r, err := c10ParseRoute(rp.Prog.Src)
			if err == nil {
				bc, cerr := compiler.NewCompilerWithOptLevel(c10OptLevels[rp.Opt]).CompileRoute(r)
				if cerr == nil {
					for _, x := range c10RoundTrip(tb, c10BC{Prog: *rp.Prog, Opt: rp.Opt, Bytes: bc}, map[byte]bool{}) {
						fmt.Printf("replay: %s :: %s\n", x.Key, x.Desc)
						if x.Key == rp.Key {
							ok = true
							res.Violate(x.Key, x.Desc, rp)
						}
					}
				}
			}
		case "case":
			got := map[string]string{}
			rsink := &c10ResultSink{violate: func(key, desc string, c c10Case) { got[key] = desc }}
			sup := c10NewSup(scratch, rsink, tb)
			if rp.Case.Kind == "growth" {
				c10NestGrowth(sup, rsink, *rp.Case.Nest)
			} else {
				m := c10MsgOfCase(*rp.Case)
				// a key names the step it was observed at: a replay runs that step only (after a step that does not
				// return, the later steps of the same input each cost the full time allowance again)
				if (m.typ == 'S' || m.typ == 'N') && m.mask == 0 {
					for st, name := range c10StepNames["src"] {
						if strings.Contains(rp.Key, "/"+name+"/") || strings.HasSuffix(rp.Key, "/"+name) {
							m.mask = 1 << st
						}
					}
				}
				sup.Submit(m)
				sup.Drain()
			}
			sup.stop()
			if sup.fatal != "" {
				t.Fatalf("C10 replay: %s", sup.fatal)
			}
			for k, d := range got {
				fmt.Printf("replay: %s :: %s\n", k, d)
				if k == rp.Key {
					ok = true
					res.Violate(k, d, rp)
				}
			}
		}
		res.Replayed = &ok
		res.Write(p)
		return
	}

	sup := c10NewSup(scratch, sink, tb)
	sup.HardStop = p.Deadline.Add(45 * time.Second)
	expired := false
	submit := func(m *c10Msg) bool {
		if expired || sup.fatal != "" || sup.Aborted {
			expired = true
			res.Exhaustive = false
			return false
		}
		if sup.Cases%256 == 0 && p.Expired() {
			expired = true
			res.Exhaustive = false
			return false
		}
		sup.Submit(m)
		return true
	}
	item := 0
	mine := func() bool { item++; return p.Mine(item) }

	// ---- part 1: corpus, round trip (in this process: compiler output only)
	progs := c10Programs(p.Thorough)
	files, rejected := c10Compile(progs)
	emitted := map[byte]bool{}
	for i, f := range files {
		for _, in := range c10EmittedOps(tb, f.Bytes) {
			emitted[in] = true
		}
		if !p.Mine(i) {
			continue
		}
		res.Evaluations++
		res.Distinct++
		res.Sample(3, map[string]any{"part": "roundtrip+faults", "program": f.Prog, "opt_level": f.Opt, "bytecode_hex": fmt.Sprintf("%x", f.Bytes)})
		for _, x := range c10RoundTrip(tb, f, map[byte]bool{}) {
			pr := f.Prog
			res.Violate(x.Key, x.Desc, c10Replay{Part: "roundtrip", Key: x.Key, Prog: &pr, Opt: f.Opt})
		}
	}
	if p.Shard == 0 {
		res.Count("corpus_programs", int64(len(progs)))
		res.Count("corpus_files", int64(len(files)))
		res.Count("corpus_rejected_by_front_end", int64(len(rejected)))
		for i, r := range rejected {
			if i < 5 {
				res.Note("corpus program rejected (not judged): %s", r)
			}
		}
		var em []string
		for b := range emitted {
			em = append(em, c10OpName(b))
		}
		sort.Strings(em)
		res.Note("opcodes in the corpus (%d): %s", len(em), strings.Join(em, " "))
		res.Note("opcodes the VM executes that no corpus file contains: %v", c10NeverEmitted(tb, emitted))
		var diff []string
		for b := 0; b < 256; b++ {
			if tb.VMKnown[b] && (tb.VMWidth[b] != tb.DecWidth[b] || !tb.DecNamed[b]) {
				diff = append(diff, fmt.Sprintf("%s(vm width %d, decompiler width %d, mnemonic %v)", c10OpName(byte(b)), tb.VMWidth[b], tb.DecWidth[b], tb.DecNamed[b]))
			}
		}
		res.Note("observed opcode tables, VM vs decompiler, differing entries: %v; jump operands in async bodies relative to body start: %v", diff, tb.AsyncRel)
	}
	// every opcode the compiler source can emit must be in the corpus (43 of the 45 the VM defines; never emitted: OpJumpIfTrue, OpHttpReturn)
	if n := len(emitted); n < 43 {
		t.Fatalf("C10: the corpus exercises only %d opcodes (%v missing)", n, c10NeverEmitted(tb, emitted))
	}

	// ---- part 2: nesting families (one family = one work item; depths in ascending order)
	maxK := 4
	if p.Thorough {
		maxK = 5
	}
	res.Bounds["nesting_depth"] = fmt.Sprintf("10^1..10^%d; stack growth measured between 10^3 and 10^4; thorough: additionally the depth at which the measured growth reaches the runtime's stack limit", maxK)
	fams := c10NestFamilies()
	res.Bounds["nesting_families"] = len(fams)
	for _, fam := range fams {
		if !mine() {
			continue
		}
		if expired || p.Expired() {
			expired = true
			res.Exhaustive = false
			break
		}
		d := 1
		lost := false
		for k := 1; k <= maxK && !lost; k++ {
			d *= 10
			if k == 3 {
				// depths 10^3 and 10^4 with the stack measurement
				perLevel := c10NestGrowth(sup, sink, fam)
				res.Distinct += 2
				for st, pl := range perLevel {
					res.Count(fmt.Sprintf("unbounded_recursion_families/%s", c10StepNames["src"][st]), 1)
					if p.Thorough {
						// demonstrate: the depth at which the default 1 GB goroutine stack is exhausted
						n := fam
						n.Depth = int(1.25e9/float64(pl)) + 1
						if n.Len() > 48<<20 {
							res.Note("family %q: crash depth %d needs a %d MiB source; not run", fam.Family, n.Depth, n.Len()>>20)
							continue
						}
						sup.Submit(&c10Msg{typ: 'N', nest: &n, mask: 1 << st, steps: 5, label: fmt.Sprintf("nesting family %q at depth %d (%d bytes of source)", n.Family, n.Depth, n.Len())})
						sup.Drain()
						res.Distinct++
					}
				}
				k, d = 4, d*10
				continue
			}
			n := fam
			n.Depth = d
			mask := byte(0)
			if d > 100 {
				mask = 1<<c10StLexParse | 1<<c10StXLexParse
			}
			r0 := sup.Restarts
			sup.Submit(&c10Msg{typ: 'N', nest: &n, mask: mask, steps: 5, label: fmt.Sprintf("nesting family %q at depth %d", n.Family, d)})
			res.Distinct++
			sup.Drain()
			if sup.Restarts != r0 {
				// a worker was lost at this depth: deeper members of the family would only repeat the finding
				res.Count("nesting_depths_not_run_after_a_fatal_depth", int64(maxK-k))
				lost = true
			}
		}
	}

	// ---- part 2b: step-limit alignment (never-ending async body started at every position around a small limit)
	alignLimits := []int{1, 7, 16}
	res.Bounds["step_limit_alignment"] = "limits 1, 7, 16; ASYNC{JUMP 0} as instruction 1..limit+4 of the run and of an outer async body"
	for _, lim := range alignLimits {
		files, labels := c10AlignFiles(lim)
		for i := range files {
			if !mine() {
				continue
			}
			if !submit(&c10Msg{typ: 'B', prep: byte(128 + lim), data: files[i], steps: 2, label: labels[i]}) {
				break
			}
			res.Distinct++
		}
	}

	// ---- part 6, first pass (run here, before the large enumerations, so that a run cut short by its time budget has
	// offered every short token sequence in every context): token sequences shorter than the bound
	tokLen := 3
	if p.Thorough {
		tokLen = 4
	}
	res.Bounds["token_sequence_length"] = tokLen
	res.Bounds["token_alphabet"] = len(c10Tokens)
	res.Bounds["token_contexts"] = fmt.Sprintf("%d for sequences of up to 2 tokens, the first three up to the bound - 1, route body only at the bound", len(c10TokCtxs))
	// two passes, shortest first (so that a run cut short by its time budget has at least offered every short
	// sequence in every context): pass 1 = sequences shorter than the bound, pass 2 = sequences at the bound
	var trec func(seq []string, pass int) bool
	trec = func(seq []string, pass int) bool {
		atBound := len(seq) == tokLen
		if (pass == 1 && !atBound || pass == 2 && atBound) && (len(seq) > 1 || (len(seq) == 1 && p.Shard == 0)) { // length-1 sequences once
			body := strings.Join(seq, " ")
			for ci, cx := range c10TokCtxs {
				if (atBound && ci != 1) || (len(seq) > 2 && ci > 2) {
					continue // the longest sequences only in the route-body context; sub-parser contexts up to 2 tokens
				}
				if !submit(&c10Msg{typ: 'S', data: []byte(cx.Pre + body + cx.Post), steps: 5, label: fmt.Sprintf("token sequence %q (%s)", seq, cx.Name)}) {
					return false
				}
				res.Distinct++
			}
		}
		if atBound || (pass == 1 && len(seq) == tokLen-1) {
			return true
		}
		for _, tk := range c10Tokens {
			if len(seq) == 1 && !mine() {
				continue
			}
			if !trec(append(append([]string{}, seq...), tk), pass) {
				return false
			}
		}
		return true
	}
	tokPass1 := trec(nil, 1)

	// ---- part 3: instruction sequences
	seqLen := 2
	if p.Thorough {
		seqLen = 3
	}
	res.Bounds["instruction_sequence_length"] = seqLen
	full := c10InstrVariants(tb, false)
	red := c10InstrVariants(tb, true)
	res.Bounds["instruction_variants"] = fmt.Sprintf("%d (length<=2), %d (length 3)", len(full), len(red))
	runSeq := func(seq []c10IV) bool {
		b := c10SeqFile(seq)
		for k := 0; k < c10NStackPreps; k++ {
			seq, k := seq, k
			if !submit(&c10Msg{typ: 'B', prep: byte(10 + k), data: b, steps: 2, labelf: func() string { return c10SeqLabel(seq, 10+k) }}) {
				return false
			}
			res.Distinct++
		}
		return true
	}
seqs:
	for _, a := range full {
		if !mine() {
			continue
		}
		if !runSeq([]c10IV{a}) {
			break
		}
		for _, b := range full {
			if !runSeq([]c10IV{a, b}) {
				break seqs
			}
		}
	}
	if seqLen >= 3 {
	seqs3:
		for _, a := range red {
			for _, b := range red {
				if !mine() {
					continue
				}
				for _, c := range red {
					if !runSeq([]c10IV{a, b, c}) {
						break seqs3
					}
				}
			}
		}
	}

	// ---- part 4: byte strings (as a file, behind a valid header, and as source text)
	byteLen := 3
	if p.Thorough {
		byteLen = 4
	}
	res.Bounds["byte_string_length"] = byteLen
	res.Bounds["byte_alphabet"] = fmt.Sprintf("% x", c10Bytes)
	var rec func(prefix []byte) bool
	rec = func(prefix []byte) bool {
		if len(prefix) > 1 || (len(prefix) == 1 && p.Shard == 0) { // length-1 strings once
			s := append([]byte{}, prefix...)
			if !submit(&c10Msg{typ: 'B', data: s, steps: 2, label: fmt.Sprintf("byte string % x as a bytecode file", s)}) {
				return false
			}
			h := append([]byte("GLYP\x01\x00\x00\x00"), s...)
			if !submit(&c10Msg{typ: 'B', data: h, steps: 2, label: fmt.Sprintf("byte string % x behind magic and version", s)}) {
				return false
			}
			for _, cx := range c10ByteCtxs {
				txt := []byte(cx.Pre + string(s) + cx.Post)
				if !submit(&c10Msg{typ: 'S', data: txt, steps: 5, label: fmt.Sprintf("byte string % x as source (%s)", s, cx.Name)}) {
					return false
				}
			}
			res.Distinct += 2 + int64(len(c10ByteCtxs))
		}
		if len(prefix) == byteLen {
			return true
		}
		for _, b := range c10Bytes {
			if len(prefix) == 1 && !mine() {
				continue
			}
			if !rec(append(append([]byte{}, prefix...), b)) {
				return false
			}
		}
		return true
	}
	rec(nil)

	// ---- part 5: faults of every corpus file
	preps := []int{0}
	if p.Thorough {
		preps = []int{0, 1}
	}
	for i, f := range files {
		if !p.Mine(i) {
			continue
		}
		if expired {
			break
		}
		if strings.HasPrefix(f.Prog.Name, c10PoolPrefix) {
			continue // constant-pool sweep: round trip only
		}
		res.Distinct += c10Faults(tb, f, preps, submit)
		sup.Drain()
	}

	// ---- part 6, second pass: token sequences at the length bound (route body)
	if tokPass1 {
		trec(nil, 2)
	}

	sup.Drain()
	sup.stop()
	if sup.fatal != "" {
		t.Fatalf("C10 engine: %s", sup.fatal)
	}
	if sup.Aborted {
		res.Exhaustive = false
		res.Note("the run was stopped 45 s past its time budget with cases still queued (machine load); nothing is concluded from them")
	}
	res.Evaluations += sup.Steps
	res.Count("worker_cases", sup.Cases)
	res.Count("worker_steps", sup.Steps)
	res.Count("worker_restarts", sup.Restarts)
	res.Count("steps_rerun_after_cpu_watchdog", sup.Retried)
	for k, v := range sup.Skipped {
		res.Count("execute_skipped_file_contains_instruction_already_fatal/"+k, v)
	}
	for _, k := range c10SortedKeys(sup.MaxRatio) {
		res.Count("max_alloc_permille_of_budget/"+k, int64(sup.MaxRatio[k]*1000))
	}
	res.Bounds["vm_step_limit"] = c10StepLimit
	res.Bounds["worker_address_space_KiB"] = c10VLimitKiB
	res.Bounds["alloc_budget"] = "loaders/tools: 4096 B per input byte + 16 MiB; one Execute: 64 MiB"
	res.Write(p)
}

// c10NestGrowth runs the family at depths 10^3 and 10^4 with the stack measurement (goroutine
// stacks double, so a measurement is exact only up to a factor of two).  A step whose stack need
// grows by >= 4 MiB between the two depths - or by >= 1 MiB and then again fourfold to >= 8 MiB at
// depth 10^5 - recurses once per nesting level without a limit: the growth per level is reported
// together with the depth at which the runtime's 1 GB goroutine stack limit (a fatal,
// unrecoverable error) is reached.
func c10NestGrowth(sup *c10Sup, sink *c10ResultSink, fam c10Nest) map[int]uint64 {
	run := func(d int, mask byte) *c10Msg {
		n := fam
		n.Depth = d
		m := &c10Msg{typ: 'N', nest: &n, mask: mask, steps: 5, label: fmt.Sprintf("nesting family %q at depth %d", n.Family, d)}
		r0 := sup.Restarts
		sup.Submit(m)
		sup.Drain()
		if sup.Restarts != r0 || sup.fatal != "" {
			return nil
		}
		return m
	}
	both := byte(1<<c10StLexParse | 1<<c10StXLexParse)
	m3 := run(1000, both)
	if m3 == nil {
		return nil
	}
	m4 := run(10000, both)
	if m4 == nil {
		return nil
	}
	out := map[int]uint64{}
	for _, st := range []int{c10StLexParse, c10StXLexParse} {
		lo, hi := sup.Stacks[m3.idx][st], sup.Stacks[m4.idx][st]
		loD, hiD := uint64(1000), uint64(10000)
		switch {
		case hi >= lo+4<<20:
		case hi >= lo+1<<20:
			m5 := run(100000, 1<<st)
			if m5 == nil {
				return out
			}
			s5 := sup.Stacks[m5.idx][st]
			if s5 < 4*hi || s5 < 8<<20 {
				continue
			}
			lo, hi, loD, hiD = hi, s5, 10000, 100000
		default:
			continue
		}
		pl := (hi - lo) / (hiD - loD)
		out[st] = pl
		n := fam
		n.Depth = 10000
		crash := int(1e9 / float64(pl))
		nn := fam
		nn.Depth = crash
		name := c10StepNames["src"][st]
		sink.violate(fmt.Sprintf("unbounded-recursion/%s/%s", name, fam.Family),
			fmt.Sprintf("nesting family %q: %s recurses once per nesting level without a depth limit: the goroutine stack grew from %d KiB at depth %d to %d KiB at depth %d (about %d bytes per level); at a depth of about %d (a source text of about %.1f MB) the Go runtime's 1 GB stack limit is reached, which is a fatal error no recover() can catch",
				fam.Family, name, lo>>10, loD, hi>>10, hiD, pl, crash, float64(nn.Len())/1e6),
			c10Case{Kind: "growth", Nest: &n, Steps: int(both), Label: "stack growth of nesting family " + fam.Family})
	}
	return out
}

func c10EmittedOps(t *c10Tables, b []byte) []byte {
	f, err := c10ReadFile(b)
	if err != nil {
		return nil
	}
	ins, _, _ := c10Walk(t, b, f)
	var out []byte
	for _, in := range ins {
		out = append(out, in.Op)
	}
	return out
}

// ---------------------------------------------------------------- exploration aid (not part of the check)

func c10ProbeCorpus(thorough bool) {
	tb, err := c10Observe()
	if err != nil {
		panic(err)
	}
	ps := c10Programs(thorough)
	files, rej := c10Compile(ps)
	fmt.Println("programs", len(ps), "files", len(files), "rejected", len(rej))
	for _, r := range rej {
		fmt.Println("  REJ", r)
	}
	emitted := map[byte]bool{}
	tot := 0
	keys := map[string]int{}
	first := map[string]string{}
	for _, f := range files {
		tot += len(f.Bytes)
		for _, x := range c10RoundTrip(tb, f, emitted) {
			keys[x.Key]++
			if first[x.Key] == "" {
				first[x.Key] = x.Desc
			}
		}
	}
	fmt.Println("total bytes", tot, "never emitted", c10NeverEmitted(tb, emitted))
	for k, n := range keys {
		fmt.Println(n, k, "::", first[k])
	}
}

func c10Probe(file string) {
	if file == "time" {
		t0 := time.Now()
		c10Observe()
		fmt.Println("observe", time.Since(t0))
		t0 = time.Now()
		for i := 0; i < 1000; i++ {
			vm.NewVM()
		}
		fmt.Println("1000 NewVM", time.Since(t0))
		return
	}
	if file == "stacks" {
		smp := []metrics.Sample{{Name: "/memory/classes/heap/stacks:bytes"}}
		for _, n := range c10NestFamilies() {
			for _, d := range []int{1000, 10000} {
				n.Depth = d
				src := n.Text()
				done := make(chan string)
				var st uint64
				go func() {
					toks, err := parser.NewLexer(src).Tokenize()
					r := "ok"
					if err != nil {
						r = "lexerr: " + c10First(err.Error())
					} else if _, err = parser.NewParserWithSource(toks, src).Parse(); err != nil {
						es := strings.Split(err.Error(), "\n")
						r = "parseerr: " + es[len(es)-1]
						if len(es) > 3 {
							r = "parseerr: " + es[len(es)-3] + " / " + es[len(es)-1]
						}
					}
					metrics.Read(smp)
					st = smp[0].Value.Uint64()
					done <- r
				}()
				r := <-done
				fmt.Printf("%-20s depth %6d stacks=%8d KiB  %s\n", n.Family, d, st>>10, c10First(r))
				runtime.GC()
				runtime.GC()
			}
		}
		return
	}
	if strings.HasPrefix(file, "nest:") {
		var fam string
		var d int
		parts := strings.Split(file, ":")
		fam = parts[1]
		fmt.Sscan(parts[2], &d)
		for _, n := range c10NestFamilies() {
			if n.Family != fam {
				continue
			}
			n.Depth = d
			src := n.Text()
			t0 := time.Now()
			toks, err := parser.NewLexer(src).Tokenize()
			fmt.Println("lex", len(src), len(toks), err != nil, time.Since(t0))
			if err == nil {
				t0 = time.Now()
				_, err = parser.NewParserWithSource(toks, src).Parse()
				es := ""
				if err != nil {
					es = c10First(err.Error())
				}
				fmt.Println("parse", time.Since(t0), es)
			}
		}
		return
	}
	if file == "corpus" || file == "corpusT" {
		c10ProbeCorpus(file == "corpusT")
		return
	}
	tb, err := c10Observe()
	fmt.Println("observe err:", err)
	src, err := os.ReadFile(file)
	if err != nil {
		panic(err)
	}
	mod, err := c10ParseSource(string(src))
	if err != nil {
		fmt.Println("parse:", err)
		return
	}
	for _, it := range mod.Items {
		r, ok := it.(*ast.Route)
		if !ok {
			continue
		}
		for _, lvl := range c10OptLevels {
			bc, err := compiler.NewCompilerWithOptLevel(lvl).CompileRoute(r)
			if err != nil {
				fmt.Println(r.Path, "compile:", err)
				continue
			}
			f, err := c10ReadFile(bc)
			if err != nil {
				fmt.Println("ref read:", err)
				continue
			}
			fmt.Printf("== %s opt=%d len=%d codeStart=%d ninstr=%d consts=%v\n", r.Path, lvl, len(bc), f.CodeStart, f.NInstr, f.Consts)
			ins, frames, werr := c10Walk(tb, bc, f)
			for _, in := range ins {
				if in.HasOp {
					fmt.Printf("  %4d f%d %-14s %d\n", in.Off, in.Frame, c10OpName(in.Op), in.Operand)
				} else {
					fmt.Printf("  %4d f%d %-14s\n", in.Off, in.Frame, c10OpName(in.Op))
				}
			}
			fmt.Println("  frames", frames, "walk err", werr)
			d, derr := NewDecompiler().Decompile(bc)
			if derr != nil {
				fmt.Println("  decompile err", derr)
			} else {
				fmt.Print("  dec offsets:")
				for _, i := range d.Instructions {
					fmt.Printf(" %d:%s", i.Offset+f.CodeStart, i.Opcode)
				}
				fmt.Println()
			}
			m := c10NewVM(0, 10000)
			m.SetLocal("value", vm.IntValue{Val: 40})
			v, xerr := m.Execute(bc)
			fmt.Printf("  exec -> %v err=%v\n", v, xerr)
		}
	}
}
