#!/bin/bash
# Builds the framework offline from files on disk and pre-warms the Go build cache.
set -e
cd "$(dirname "$0")/.."
export GOFLAGS=-mod=mod GOPROXY=off
unset GOTOOLCHAIN GOSUMDB
mkdir -p bin evidence replays
go build -o bin/check ./cmd/check
# warm the build cache: repository packages and each harness binary
(cd /repo && go build ./... ) || true
for id in $(bin/check --list | awk '{print $1}'); do
  bin/check "$id" --build-only >/dev/null 2>&1 || echo "warm-up build of $id failed (will be reported by the check itself)"
done
echo setup done
