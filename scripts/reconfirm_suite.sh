#!/bin/bash
# usage: scripts/reconfirm_suite.sh <seed-dir>... — for a seeded change whose whole-suite run had a FAIL (suite_exit=1), re-runs
# each package that failed, alone, with the change applied, up to 3 times (the suite has timing tests that fail under load on
# any tree). Appends the outcome to confirm.log and rewrites the VERDICT line with suite_exit=0 and a "(after re-run of: ...)"
# note only if every such package passes on some attempt.
export GOFLAGS=-mod=mod GOPROXY=off
for seed in "$@"; do
  seed=$(readlink -f "$seed"); log="$seed/confirm.log"
  pkgs=$(sed -n '/## existing test suite with change/,$p' "$log" | grep -E "^FAIL\s+github.com" | awk '{print $2}' | sort -u | sed 's|github.com/glyphlang/glyph/|./|')
  [ -n "$pkgs" ] || { echo "$(basename $seed): no failing package recorded"; continue; }
  wt=$(mktemp -d /var/tmp/seedwt-XXXXXX); rmdir "$wt"
  git -C /repo worktree add -q --detach "$wt" HEAD || exit 2
  ( cd "$wt"; git apply "$seed/patch.diff" || exit 3
    allok=1
    echo "## re-run of the packages that failed, alone, with the change ($(git rev-parse --short HEAD))" >> "$log"
    for p in $pkgs; do
      ok=0
      for i in 1 2 3; do
        if go test -vet=off -count=1 -timeout 15m "$p/" >> "$log" 2>&1; then ok=1; break; fi
      done
      [ $ok = 1 ] || allok=0
    done
    if [ $allok = 1 ]; then
      sed -i "s|^\(VERDICT .*\)suite_exit=1.*|\1suite_exit=0 (after re-run of: $(echo $pkgs | tr '\n' ' '))|" "$log"
    fi
    grep VERDICT "$log" | tail -1 )
  git -C /repo worktree remove --force "$wt" 2>/dev/null; rm -rf "$wt"
done
