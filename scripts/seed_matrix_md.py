#!/usr/bin/env python3
# Rewrites seeded/MATRIX.md from the seeded/<name>/detection.json files (written by scripts/seed_matrix.sh).
import json, glob, os, re
rows, missing = [], []
names = sorted([d for d in os.listdir('/verif/seeded') if re.match(r'^C\d+-\d+$', d)], key=lambda n: (n.split('-')[0], int(n.split('-')[1])))
for n in names:
    f = f'/verif/seeded/{n}/detection.json'
    m = {}
    try: m = json.load(open(f'/verif/seeded/{n}/meta.json'))
    except Exception: pass
    title = (m.get('title') or '')[:110].replace('|', '/')
    if not os.path.exists(f):
        missing.append((n, title)); continue
    d = json.load(open(f))
    res = 'does not apply' if not d.get('applies') else ('caught' if d.get('caught') else ('ENGINE-ERROR' if d.get('exit') == 2 else 'not caught in this run'))
    rows.append((n, title, d.get('check', ''), res, (d.get('first_violation_key') or '')[:90].replace('|', '/'), d.get('repo_head', ''), d.get('verif_head', '')))
with open('/verif/seeded/MATRIX.md', 'w') as o:
    o.write('# Independently seeded property-breaking changes vs. the quick checks\n\n')
    o.write('Each row is one run of `scripts/mutant.sh seeded/<seed>/patch.diff <check> quick` (scratch worktree of /repo HEAD + the change, the\n'
            'registered quick command, replay validation included). "not caught in this run": the run ended with exit 0 — see the note\n'
            'below the table. The strengthenings that each miss led to are in DESIGN.md §0.6.\n\n')
    o.write('| seed | change | check | result | first violation key | repo | verif |\n|---|---|---|---|---|---|---|\n')
    for r in rows: o.write('| %s | %s | %s | %s | `%s` | %s | %s |\n' % r)
    nc = [r[0] for r in rows if r[3] == 'not caught in this run']
    if os.path.exists('/verif/seeded/MATRIX.note.md'):
        o.write('\n' + open('/verif/seeded/MATRIX.note.md').read())
    if missing:
        o.write('\n## Not re-run in this matrix\n\nThe matrix run was stopped for lack of time; these seeds were each run individually with the same command when they were\nimported or after the strengthening that caught them (DESIGN.md §0.6 records the outcome), but have no `detection.json`:\n\n')
        for n, t in missing: o.write('* %s — %s\n' % (n, t))
print('rows', len(rows), 'caught', sum(1 for r in rows if r[3] == 'caught'), 'not caught', [r[0] for r in rows if r[3] != 'caught'], 'missing', len(missing))
