#!/bin/bash
# usage: scripts/mutant.sh <patch.diff> <property-id> [tier]
# Applies a property-breaking patch to a scratch worktree of /repo (HEAD + the
# patch; /repo itself is not touched), runs the check against it with evidence
# and replays redirected to a scratch directory, and removes the worktree.
set -u
patch=$(readlink -f "$1"); id=$2; tier=${3:-quick}
wt=$(mktemp -d /var/tmp/mutwt-XXXXXX); rmdir "$wt"
git -C /repo worktree add -q --detach "$wt" HEAD || exit 2
cleanup(){ git -C /repo worktree remove --force "$wt" 2>/dev/null; rm -rf "$wt" "$ev"; }
ev=$(mktemp -d /var/tmp/mutev-XXXXXX)
trap cleanup EXIT
( cd "$wt" && git apply "$patch" ) || { echo "patch does not apply"; exit 2; }
out=$(mktemp)
cd /verif && VERIF_REPO="$wt" VERIF_OUT_DIR="$ev" bin/check "$id" --tier "$tier" > "$out" 2>&1; code=$?
grep -E "VIOLATION|ENGINE-ERROR|UNCONFIRMED|tier=" "$out" | cut -c1-${MUTANT_COLS:-400} | head -${MUTANT_LINES:-8}
if [ "$code" = 2 ]; then tail -20 "$out"; fi
echo "known-findings=$(grep -c KNOWN-FINDING "$out") exit=$code"
rm -f "$out"
