#!/bin/bash
# usage: scripts/mutant.sh <patch.diff> <property-id> [tier]
# Applies a property-breaking patch to /repo, runs the check, and always reverts.
set -u
patch=$(readlink -f "$1"); id=$2; tier=${3:-quick}
cd /repo || exit 2
if ! git diff --quiet; then echo "repo dirty"; exit 2; fi
git apply "$patch" || { echo "patch does not apply"; exit 2; }
trap 'git -C /repo checkout -- . ; git -C /repo clean -fdq -- pkg cmd 2>/dev/null' EXIT
out=$(mktemp)
cd /verif && bin/check "$id" --tier "$tier" > "$out" 2>&1; code=$?
grep -E "VIOLATION|ENGINE-ERROR|UNCONFIRMED|tier=" "$out" | cut -c1-${MUTANT_COLS:-400} | head -${MUTANT_LINES:-8}
echo "known-findings=$(grep -c KNOWN-FINDING "$out") exit=$code"
rm -f "$out"
