#!/bin/bash
# usage: scripts/mutant.sh <patch.diff> <property-id> [tier]
# Applies a property-breaking patch to /repo, runs the check, and always reverts.
set -u
patch=$(readlink -f "$1"); id=$2; tier=${3:-quick}
cd /repo || exit 2
if ! git diff --quiet; then echo "repo dirty"; exit 2; fi
git apply "$patch" || { echo "patch does not apply"; exit 2; }
trap 'git -C /repo checkout -- . ; git -C /repo clean -fdq -- pkg cmd 2>/dev/null' EXIT
cd /verif && bin/check "$id" --tier "$tier" 2>&1 | grep -E "VIOLATION|KNOWN-FINDING|ENGINE-ERROR|UNCONFIRMED|tier=" | cut -c1-400 | head -${MUTANT_LINES:-8}
echo "exit=${PIPESTATUS[0]}"
