#!/bin/bash
# usage: scripts/mkseedprompt.sh <ID> [n] — creates a scratch worktree /tmp/wt-<ID> of /repo HEAD and the prompt file
# /tmp/seedprompt/<ID>.txt for an independent sub-agent (which sees only the property text and its worktree).
set -e
id=$1; n=${2:-3}; suf=${3:-}
wt=/tmp/wt-$id$suf; out=/tmp/seed-out/$id$suf
[ -d "$wt" ] || git -C /repo worktree add -q --detach "$wt" HEAD
mkdir -p "$out" /tmp/seedprompt
python3 - "$id" "$n" "$wt" "$out" "$suf" <<'PY'
import sys, json
id, n, wt, out = sys.argv[1:5]
prop = [l for l in open('/verif/properties.jsonl') if json.loads(l)['id'] == id][0].strip()
t = open('/verif/scripts/agent_seed_prompt.txt').read()
t = t.replace('__PROPERTY__', prop).replace('__N__', n).replace('__WT__', wt).replace('__OUT__', out)
open('/tmp/seedprompt/%s.txt' % (id + sys.argv[5] if len(sys.argv) > 5 else id), 'w').write(t)
PY
echo /tmp/seedprompt/$id$suf.txt
