#!/bin/bash
# usage: scripts/import_seeds_r2.sh <ID>:<k>[,<k>...] ... — imports /tmp/seed-out/<ID>r2/<k>/ as the next free seeded/<ID>-<n>/ and confirms it
for spec in "$@"; do
  id=${spec%%:*}; ks=${spec#*:}
  for k in ${ks//,/ }; do
    d=/tmp/seed-out/${id}${SUF:-r2}/$k; [ -f "$d/patch.diff" ] || continue
    n=$(ls -d /verif/seeded/$id-* 2>/dev/null | sed "s/.*-//" | sort -n | tail -1); n=$((${n:-0}+1)); dst=/verif/seeded/$id-$n
    mkdir -p $dst; cp $d/patch.diff $d/demo_test.go $d/meta.json $dst/; cp $d/suite*.log $dst/ 2>/dev/null
    pkg=$(python3 -c "import json;print(json.load(open('$dst/meta.json')).get('demo_pkg_dir',''))")
    rx=$(python3 -c "import json;print(json.load(open('$dst/meta.json')).get('demo_run','TestDemo'))")
    /verif/scripts/confirm_seeded.sh $dst $pkg "$rx" 15m
  done
done
