#!/bin/bash
# usage: scripts/mutants_all.sh <ID> [tier] — runs every mutant of a property and prints one line each
id=$1; tier=${2:-quick}
for m in /verif/mutants/$id/*.diff; do
  r=$(MUTANT_LINES=2 MUTANT_COLS=220 /verif/scripts/mutant.sh "$m" "$id" "$tier" 2>&1)
  echo "== $(basename $m): $(echo "$r" | tail -1)"; echo "$r" | head -1
done
