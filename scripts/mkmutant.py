#!/usr/bin/env python3
"""usage: mkmutant.py <ID> <name> <repo-relative-file> <old-text> <new-text> [<file2> <old2> <new2> ...]
Creates /verif/mutants/<ID>/<name>.diff (a `git diff` against /repo HEAD) by replacing the first occurrence of
old-text by new-text in a scratch worktree; /repo itself is not touched.  old/new may contain \\n and \\t escapes
when passed with $'..' quoting from bash."""
import subprocess, sys, tempfile, os, shutil
pid, name, rest = sys.argv[1], sys.argv[2], sys.argv[3:]
assert len(rest) % 3 == 0 and rest
wt = tempfile.mkdtemp(prefix='mkmut-', dir='/var/tmp'); os.rmdir(wt)
subprocess.check_call(['git', '-C', '/repo', 'worktree', 'add', '-q', '--detach', wt, 'HEAD'])
try:
    for i in range(0, len(rest), 3):
        f, old, new = rest[i:i+3]
        p = os.path.join(wt, f); s = open(p).read()
        if old not in s:
            sys.exit(f"old text not found in {f}")
        open(p, 'w').write(s.replace(old, new, 1))
    d = subprocess.check_output(['git', '-C', wt, 'diff'])
    os.makedirs(f'/verif/mutants/{pid}', exist_ok=True)
    open(f'/verif/mutants/{pid}/{name}.diff', 'wb').write(d)
    print(f'/verif/mutants/{pid}/{name}.diff', len(d), 'bytes')
finally:
    subprocess.call(['git', '-C', '/repo', 'worktree', 'remove', '--force', wt]); shutil.rmtree(wt, ignore_errors=True)
