#!/usr/bin/env python3
"""Generates /verif/MANIFEST.json from the table below (kept in one place so the
manifest stays valid while checks are added)."""
import json, os
V = os.path.dirname(os.path.dirname(os.path.abspath(__file__)))
props = [json.loads(l) for l in open(os.path.join(V, 'properties.jsonl'))]
checks = json.load(open(os.path.join(V, 'scripts', 'checks.json')))
out = {
    "version": 1,
    "setup_cmd": "bash scripts/setup.sh",
    "hooks": {
        "guard": "none (no source hooks: all instrumentation is a check-time `go build -overlay` produced by /verif/instr from the current /repo working tree)",
        "enable": "bin/check builds /repo packages with -overlay <scratch>/overlay.json (rewritten sources + virtual packages under internal/verif + in-package harness test files); /repo is never modified",
        "baseline_off_cmd": "cd /repo && GOFLAGS=-mod=mod GOPROXY=off go test -mod=mod -json -vet=off -count=1 -timeout 25m ./...",
        "source_commits": [],
        "add_only": True,
    },
    "engines": [
        {"name": "vrt", "path": "rt/vrt", "kind_free_text": "controlled cooperative scheduler + preemption-bounded DFS schedule explorer + happens-before race monitor; code under test is rewritten by instr/ so that sync, atomic, channel, select, go and clock operations are scheduling points", "serves_properties": sorted(c for c in checks if checks[c].get('engines') and 'vrt' in checks[c]['engines'])},
        {"name": "gbfs", "path": "rt/vk/bfs.go", "kind_free_text": "explicit-state breadth-first search over event histories of real objects (successor = replay on a fresh instance + one event), dedup by canonical state", "serves_properties": sorted(c for c in checks if checks[c].get('engines') and 'gbfs' in checks[c]['engines'])},
        {"name": "genum", "path": "harness", "kind_free_text": "bounded-exhaustive enumeration of programs/inputs/configurations with reference oracles; each property's generator, reference model and shrinker live in harness/<ID>/ (compiled into the repository package under test through the overlay)", "serves_properties": sorted(c for c in checks if checks[c].get('engines') and 'genum' in checks[c]['engines'])},
        {"name": "gfault", "path": "harness/C10", "kind_free_text": "fault enumeration: every truncation / byte / field / jump-operand mutation of compiler-emitted bytecode in disposable memory-limited workers (harness/C10), every callback fault position and every driver-call index through a fault-injecting database/sql driver (harness/C14)", "serves_properties": sorted(c for c in checks if checks[c].get('engines') and 'gfault' in checks[c]['engines'])},
        {"name": "instr", "path": "instr", "kind_free_text": "typed source-to-source instrumenter (go/packages) producing the overlay", "serves_properties": sorted(c for c in checks if checks[c].get('engines') and 'vrt' in checks[c]['engines'])},
    ],
    "checks": [],
    "not_applicable": [],
    "notes": "bin/check <id> --tier quick|thorough [--replay file]; known findings in known_findings.txt; seeded property-breaking changes in seeded/, own mutants in mutants/.",
}
for p in props:
    i = p['id']
    if i in checks:
        c = checks[i]
        out['checks'].append({
            "property_id": i,
            "quick_cmd": f"bin/check {i} --tier quick",
            "thorough_cmd": f"bin/check {i} --tier thorough",
            "evidence_file": f"evidence/{i}.json",
            "replay_cmd_template": f"bin/check {i} --replay {{path}}",
            "engine": "+".join(c.get('engines', [])),
            "level_claimed": {"category": c['level'], "text": c['text'], "design_ref": c.get('design_ref', f"DESIGN.md §4 {i}")},
            "level_note": c['note'],
            "technique": c['technique'],
        })
    else:
        out['not_applicable'].append({"property_id": i, "reason": "no check registered yet in this round of the build (planned, see DESIGN.md §4); not a claim that model checking cannot apply"})
json.dump(out, open(os.path.join(V, 'MANIFEST.json'), 'w'), indent=1)
print("checks:", [c['property_id'] for c in out['checks']])
