#!/usr/bin/env python3
"""Regenerates the generated parts of DESIGN.md §0 (status table, counts) from checks.json, known_findings.txt,
evidence/, mutants/ and seeded/."""
import json, os, glob, re, subprocess
V = os.path.dirname(os.path.dirname(os.path.abspath(__file__)))
props = [json.loads(l) for l in open(V + '/properties.jsonl')]
checks = json.load(open(V + '/scripts/checks.json'))
kf = open(V + '/known_findings.txt').read().split('\n')
rows = ['| id | registered | level | quick tier (last committed evidence) | fix commits | known findings | own mutants | seeded: kept; final matrix caught/run |', '|---|---|---|---|---|---|---|---|']
for p in props:
    i = p['id']
    ev = ''
    try:
        e = json.load(open(f'{V}/evidence/{i}.json')); c = e['coverage']
        ev = f"{c.get('evaluations', 0):,} evaluations"
        if e['level'] == 'model_checking': ev += f", {c.get('states', 0):,} states, {c.get('transitions', 0):,} transitions"
        ev += f", exhaustive={str(c.get('exhaustive')).lower()}, {e['wall_s']:.0f} s ({e['tier']})"
    except Exception: pass
    seeds = sorted(glob.glob(f'{V}/seeded/{i}-*/'))
    caught = run = 0
    for s in seeds:
        try:
            caught += 1 if json.load(open(s + 'detection.json')).get('caught') else 0
            run += 1
        except Exception: pass
    rows.append(f"| {i} | {'yes' if i in checks else 'no'} | {checks.get(i, {}).get('level', '')} | {ev} | "
                f"{sum(1 for l in kf if l.startswith(f'fixed: property={i} '))} | {sum(1 for l in kf if l.startswith(f'finding: property={i} '))} | "
                f"{len(glob.glob(f'{V}/mutants/{i}/*.diff'))} | {len(seeds)}; {caught}/{run} |")
status = '\n'.join(rows)
fixcount = subprocess.check_output(['git', '-C', '/repo', 'log', '--oneline', '--grep', '^fix:']).decode().count('\n')
mutcount = len(glob.glob(V + '/mutants/*/*.diff'))
d = open(V + '/DESIGN.md').read()
def sub(tag, val, d):
    b, e = f'<!-- {tag}:BEGIN -->', f'<!-- {tag}:END -->'
    if f'@@{tag}@@' in d: return d.replace(f'@@{tag}@@', f'{b}{val}{e}')
    return re.sub(re.escape(b) + '.*?' + re.escape(e), lambda m: f'{b}{val}{e}', d, flags=re.S)
d = sub('STATUS', '\n' + status + '\n', d); d = sub('FIXCOUNT', str(fixcount), d); d = sub('MUTCOUNT', str(mutcount), d)
open(V + '/DESIGN.md', 'w').write(d)
print(status)
