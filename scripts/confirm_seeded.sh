#!/bin/bash
# usage: scripts/confirm_seeded.sh <seed-dir> <demo-target-pkg-dir> [demo-run-regex] [demo-timeout]
# Confirms, in a scratch worktree of /repo HEAD, that a seeded change (a) applies and builds, (b) leaves the whole
# existing test suite green, (c) makes its demonstration fail, while (d) the demonstration passes on the clean tree.
# Writes <seed-dir>/confirm.log and prints a one-line verdict.
set -u
seed=$(readlink -f "$1"); pkg=$2; rx=${3:-TestDemo}; to=${4:-10m}
export GOFLAGS=-mod=mod GOPROXY=off
wt=$(mktemp -d /var/tmp/seedwt-XXXXXX); rmdir "$wt"
git -C /repo worktree add -q --detach "$wt" HEAD || exit 2
trap 'git -C /repo worktree remove --force "$wt" 2>/dev/null; rm -rf "$wt"' EXIT
log="$seed/confirm.log"; : > "$log"
cd "$wt"
cp "$seed"/demo_test.go "$pkg"/zz_demo_seed_test.go
echo "## demo on clean tree ($(git rev-parse --short HEAD))" >> "$log"
go test -vet=off -count=1 -timeout "$to" -run "$rx" ./"$pkg"/ >> "$log" 2>&1; clean=$?
git apply "$seed/patch.diff" >> "$log" 2>&1 || { echo "VERDICT $seed: patch does not apply"; exit 1; }
echo "## build with change" >> "$log"
go build ./... >> "$log" 2>&1; build=$?
echo "## demo with change" >> "$log"
go test -vet=off -count=1 -timeout "$to" -run "$rx" ./"$pkg"/ >> "$log" 2>&1; demo=$?
rm -f "$pkg"/zz_demo_seed_test.go
echo "## existing test suite with change" >> "$log"
if [ -n "${SUITE_TOUCHED:-}" ]; then
  # time-boxed variant: the whole suite was run by the author of the change (meta.json "existing_tests", suite*.log next to
  # it when present); here only the packages the patch touches, their in-repo dependants cmd/glyph and pkg/server, are re-run
  pk=$(git diff --name-only | xargs -n1 dirname | sort -u | sed 's|^|./|'); pk="$pk ./cmd/glyph ./pkg/server"
  pk=$(echo $pk | tr ' ' '\n' | sort -u | tr '\n' ' ')
  echo "## (touched packages only: $pk; whole suite: see meta.json existing_tests)" >> "$log"
  go test -vet=off -count=1 -timeout 25m $pk 2>&1 | grep -v "no test files" | grep -E "^(ok|FAIL|---|panic)" >> "$log"; suite=${PIPESTATUS[0]}
else
go test -vet=off -count=1 -timeout 25m ./... 2>&1 | grep -v "no test files" | grep -E "^(ok|FAIL|---|panic)" >> "$log"; suite=${PIPESTATUS[0]}
fi
echo "VERDICT $(basename $(dirname $seed))/$(basename $seed): demo_clean_exit=$clean build_exit=$build demo_with_change_exit=$demo suite_exit=$suite" | tee -a "$log"
