#!/bin/bash
# usage: scripts/seed_matrix.sh [seed-dir-name ...] — runs the quick check of the property each seeded change breaks
# against /repo HEAD + the change (scratch worktree) and records the outcome in seeded/<name>/detection.json;
# then rewrites seeded/MATRIX.md from all detection.json files.
cd /verif
names="$@"; [ -n "$names" ] || names=$(ls seeded | grep -E '^C[0-9]+-[0-9]+$')
for n in $names; do
  d=seeded/$n; id=${n%%-*}
  [ -f $d/check ] && id=$(cat $d/check)   # the check that catches it when it is not the property's own (cross-property detection)
  [ -f $d/patch.diff ] || continue
  if ! git -C /repo apply --check /verif/$d/patch.diff 2>/dev/null; then
    echo "{\"seed\": \"$n\", \"head\": \"$(git -C /repo rev-parse --short HEAD)\", \"applies\": false}" > $d/detection.json; echo "$n: patch does not apply to HEAD"; continue
  fi
  out=$(MUTANT_LINES=1 MUTANT_COLS=300 scripts/mutant.sh $d/patch.diff $id quick 2>&1)
  code=$(echo "$out" | tail -1 | sed 's/.*exit=//')
  key=$(echo "$out" | grep -m1 VIOLATION | sed 's/.*key=//; s/ :: .*//' | head -c 200)
  python3 - "$n" "$code" "$key" "$(git -C /repo rev-parse --short HEAD)" "$(git rev-parse --short HEAD)" <<'PY'
import json, sys
n, code, key, rh, vh = sys.argv[1:]
json.dump({"seed": n, "applies": True, "check": (open(f"/verif/seeded/{n}/check").read().strip() if __import__("os").path.exists(f"/verif/seeded/{n}/check") else n.split('-')[0]), "tier": "quick", "exit": int(code) if code.isdigit() else code,
           "caught": code == "1", "first_violation_key": key, "repo_head": rh, "verif_head": vh}, open(f"/verif/seeded/{n}/detection.json", "w"), indent=1)
PY
  echo "$n: exit=$code $key"
done
python3 /verif/scripts/seed_matrix_md.py
