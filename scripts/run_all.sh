#!/bin/bash
# usage: scripts/run_all.sh [tier] — runs every registered check once on /repo's working tree, one line per check
tier=${1:-quick}
cd /verif
for id in $(python3 -c "import json;print(' '.join(c['property_id'] for c in json.load(open('MANIFEST.json'))['checks']))"); do
  out=$(bin/check $id --tier $tier 2>&1); code=$?
  echo "$id exit=$code $(echo "$out" | grep -c KNOWN-FINDING) known; $(echo "$out" | grep "tier=$tier" | tail -1)"
  echo "$out" | grep -E "^VIOLATION|ENGINE-ERROR|UNCONFIRMED" | cut -c1-300
done
