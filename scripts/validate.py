#!/usr/bin/env python3-vt
"""Validates MANIFEST.json and every evidence file against the given schemas."""
import json, jsonschema, glob, sys, os
V = os.path.dirname(os.path.dirname(os.path.abspath(__file__)))
jsonschema.validate(json.load(open(V + '/MANIFEST.json')), json.load(open('/root/.vp/MANIFEST.schema.json')))
print('manifest ok')
s = json.load(open('/root/.vp/EVIDENCE.schema.json'))
for f in sorted(glob.glob(V + '/evidence/*.json')):
    try:
        jsonschema.validate(json.load(open(f)), s); print(os.path.basename(f), 'ok')
    except Exception as e:
        print(os.path.basename(f), 'INVALID', str(e)[:300])
