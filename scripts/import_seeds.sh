#!/bin/bash
# usage: scripts/import_seeds.sh <ID>... — copies /tmp/seed-out/<ID>/<k>/ to /verif/seeded/<ID>-<k>/ and confirms each
# (scripts/confirm_seeded.sh: demo passes on clean tree, change builds, demo fails with change, whole suite green).
for id in "$@"; do
  for d in /tmp/seed-out/$id/[0-9]*; do
    k=$(basename $d); dst=/verif/seeded/$id-$k
    [ -f "$d/patch.diff" ] || continue
    mkdir -p $dst; cp $d/patch.diff $d/demo_test.go $d/meta.json $dst/ 2>/dev/null
    pkg=$(python3 -c "import json;print(json.load(open('$dst/meta.json')).get('demo_pkg_dir',''))")
    rx=$(python3 -c "import json;print(json.load(open('$dst/meta.json')).get('demo_run','TestDemo'))")
    [ -n "$pkg" ] || { echo "VERDICT $id-$k: no demo_pkg_dir in meta.json"; continue; }
    /verif/scripts/confirm_seeded.sh $dst $pkg "$rx" 15m
  done
done
