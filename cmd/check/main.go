// Command check is the driver of the verification framework: it binds a
// property's harness to the current /repo working tree through a build overlay
// (instrumented sources + virtual runtime packages + in-package harness test
// files), runs the harness shards, merges their results, classifies
// violations against known_findings.txt, validates new violations by replay
// and writes /verif/evidence/<id>.json.
package main

import (
	"crypto/sha1"
	"encoding/json"
	"flag"
	"fmt"
	"os"
	"os/exec"
	"path/filepath"
	"sort"
	"strings"
	"sync"
	"time"

	"verif/instr"
)

var (
	verifDir = "/verif"
	repoDir  = "/repo"
)

type shardResult struct {
	Evaluations int64            `json:"evaluations"`
	Distinct    int64            `json:"distinct_nontrivial"`
	States      int64            `json:"states"`
	Transitions int64            `json:"transitions"`
	Exhaustive  bool             `json:"exhaustive"`
	Rule        string           `json:"rule"`
	Samples     []any            `json:"samples"`
	Violations  []violation      `json:"violations"`
	Counters    map[string]int64 `json:"counters"`
	Notes       []string         `json:"notes"`
	Bounds      map[string]any   `json:"bounds"`
	Replayed    *bool            `json:"replayed"`
	Suppressed  int64            `json:"suppressed_duplicates"`
}

type violation struct {
	Key    string `json:"key"`
	Desc   string `json:"desc"`
	Replay any    `json:"replay"`
}

func main() {
	tier := flag.String("tier", envOr("VERIF_TIER", "quick"), "quick|thorough")
	replay := flag.String("replay", "", "replay file")
	keep := flag.Bool("keep", false, "keep scratch directory")
	list := flag.Bool("list", false, "list checks")
	buildOnly := flag.Bool("build-only", false, "build the harness binary and exit (cache warm-up)")
	flag.Usage = func() { fmt.Fprintln(os.Stderr, "usage: check [flags] <property-id>") }
	// allow flags after the id
	var id string
	args := os.Args[1:]
	var fl []string
	for _, a := range args {
		if !strings.HasPrefix(a, "-") && id == "" && len(a) > 0 && a[0] == 'C' {
			id = a
		} else {
			fl = append(fl, a)
		}
	}
	flag.CommandLine.Parse(fl)
	if v := os.Getenv("VERIF_DIR"); v != "" {
		verifDir = v
	}
	if v := os.Getenv("VERIF_REPO"); v != "" {
		repoDir = v
	}
	if *list {
		for _, s := range specs() {
			fmt.Println(s.ID, s.Pkg)
		}
		return
	}
	var spec *Spec
	for _, s := range specs() {
		if s.ID == id {
			s := s
			spec = &s
		}
	}
	if spec == nil {
		fmt.Fprintf(os.Stderr, "unknown property %q\n", id)
		os.Exit(2)
	}
	os.Setenv("GOFLAGS", "-mod=mod")
	os.Setenv("GOPROXY", "off")
	os.Unsetenv("GOTOOLCHAIN")
	os.Unsetenv("GOSUMDB")
	code := run(spec, *tier, *replay, *keep, *buildOnly)
	os.Exit(code)
}

func envOr(k, d string) string {
	if v := os.Getenv(k); v != "" {
		return v
	}
	return d
}

func fatal(f string, a ...any) {
	fmt.Fprintf(os.Stderr, "ENGINE-ERROR: "+f+"\n", a...)
	os.Exit(2)
}

// buildOverlay assembles the overlay and returns its path.
func buildOverlay(spec *Spec, scratch string) string {
	replace := map[string]string{}
	// virtual runtime packages
	rtRoot := filepath.Join(verifDir, "rt")
	ents, _ := os.ReadDir(rtRoot)
	for _, e := range ents {
		if !e.IsDir() {
			continue
		}
		files, _ := filepath.Glob(filepath.Join(rtRoot, e.Name(), "*.go"))
		for _, f := range files {
			replace[filepath.Join(repoDir, "internal", "verif", e.Name(), filepath.Base(f))] = f
		}
	}
	// instrumented sources
	if len(spec.Instr) > 0 {
		ov, err := instr.Instrument(repoDir, spec.Instr, scratch)
		if err != nil {
			fatal("%v", err)
		}
		for k, v := range ov {
			replace[k] = v
		}
	}
	// hide the repository's own tests of the harness package (and of extra dirs)
	hide := append([]string{}, spec.HideTests...)
	if !spec.KeepTests {
		hide = append(hide, spec.Pkg)
	}
	for _, d := range hide {
		tests, _ := filepath.Glob(filepath.Join(repoDir, d, "*_test.go"))
		for _, t := range tests {
			replace[t] = ""
		}
	}
	// harness files
	hfiles, _ := filepath.Glob(filepath.Join(verifDir, "harness", spec.Harness, "*.go"))
	if len(hfiles) == 0 {
		fatal("no harness files for %s", spec.ID)
	}
	for _, h := range hfiles {
		replace[filepath.Join(repoDir, spec.Pkg, "zz_verif_"+filepath.Base(h))] = h
	}
	// shared harness libraries copied into the harness package
	for _, lib := range spec.Libs {
		lf, _ := filepath.Glob(filepath.Join(verifDir, "harness", lib, "*.go"))
		for _, h := range lf {
			replace[filepath.Join(repoDir, spec.Pkg, "zz_veriflib_"+lib+"_"+filepath.Base(h))] = h
		}
	}
	b, _ := json.MarshalIndent(map[string]any{"Replace": replace}, "", " ")
	p := filepath.Join(scratch, "overlay.json")
	if err := os.WriteFile(p, b, 0o644); err != nil {
		fatal("%v", err)
	}
	return p
}

func run(spec *Spec, tier, replay string, keep, buildOnly bool) int {
	start := time.Now()
	base := envOr("VERIF_SCRATCH", "/var/tmp")
	scratch, err := os.MkdirTemp(base, "verif-"+spec.ID+"-")
	if err != nil {
		fatal("%v", err)
	}
	if !keep {
		defer os.RemoveAll(scratch)
	} else {
		fmt.Fprintln(os.Stderr, "scratch:", scratch)
	}
	ov := buildOverlay(spec, scratch)
	bin := filepath.Join(scratch, "harness.test")
	args := []string{"test", "-c", "-overlay", ov, "-vet=off", "-o", bin}
	if spec.RaceBuild {
		args = append(args, "-race")
	}
	args = append(args, "./"+spec.Pkg)
	cmd := exec.Command("go", args...)
	cmd.Dir = repoDir
	out, err := cmd.CombinedOutput()
	if err != nil {
		fmt.Fprintf(os.Stderr, "%s\n", out)
		fatal("harness build failed for %s (the tree no longer compiles with the harness): %v", spec.ID, err)
	}
	if buildOnly {
		return 0
	}
	seed := envOr("VERIF_SEED", "0")

	runShard := func(i, n int, replayPath string, budget int) (*shardResult, string, error) {
		outp := filepath.Join(scratch, fmt.Sprintf("out-%d-%d.json", i, time.Now().UnixNano()))
		c := exec.Command(bin, "-test.run", "^"+spec.Test+"$", "-test.timeout", fmt.Sprintf("%ds", budget+spec.Grace), "-test.count=1")
		c.Dir = filepath.Join(repoDir, spec.Pkg)
		c.Env = append(os.Environ(), "VERIF_OUT="+outp, "VERIF_TIER="+tier, fmt.Sprintf("VERIF_SHARD=%d/%d", i, n),
			"VERIF_SEED="+seed, "VERIF_REPLAY="+replayPath, fmt.Sprintf("VERIF_BUDGET_S=%d", budget),
			"VERIF_DIR="+verifDir, "VERIF_REPO="+repoDir, "VERIF_SCRATCH_DIR="+scratch)
		if spec.GoMaxProcs > 0 {
			c.Env = append(c.Env, fmt.Sprintf("GOMAXPROCS=%d", spec.GoMaxProcs))
		}
		c.Env = append(c.Env, spec.Env...)
		o, err := c.CombinedOutput()
		b, rerr := os.ReadFile(outp)
		if rerr != nil {
			tail := string(o)
			if len(tail) > 6000 {
				tail = tail[len(tail)-6000:]
			}
			return nil, tail, fmt.Errorf("shard %d/%d produced no result (%v)", i, n, err)
		}
		var r shardResult
		if jerr := json.Unmarshal(b, &r); jerr != nil {
			return nil, string(o), jerr
		}
		return &r, string(o), nil
	}

	budget := spec.QuickBudget
	shards := spec.Shards
	if tier == "thorough" {
		budget = spec.ThoroughBudget
		if spec.ThoroughShards > 0 {
			shards = spec.ThoroughShards
		}
	}
	if shards == 0 {
		shards = 1
	}
	if budget == 0 {
		budget = 60
	}

	if replay != "" {
		r, o, err := runShard(0, 1, replay, budget)
		if err != nil {
			fmt.Fprintln(os.Stderr, o)
			fatal("%v", err)
		}
		fmt.Print(o)
		if r.Replayed != nil && *r.Replayed {
			for _, v := range r.Violations {
				fmt.Printf("REPRODUCED property=%s key=%s :: %s\n", spec.ID, v.Key, v.Desc)
			}
			return 1
		}
		fmt.Println("NOT-REPRODUCED")
		return 0
	}

	results := make([]*shardResult, shards)
	var wg sync.WaitGroup
	var mu sync.Mutex
	var firstErr error
	var errOut string
	sem := make(chan struct{}, 16)
	for i := 0; i < shards; i++ {
		wg.Add(1)
		go func(i int) {
			defer wg.Done()
			sem <- struct{}{}
			defer func() { <-sem }()
			r, o, err := runShard(i, shards, "", budget)
			mu.Lock()
			defer mu.Unlock()
			if err != nil && firstErr == nil {
				firstErr, errOut = err, o
			}
			results[i] = r
		}(i)
	}
	wg.Wait()
	if firstErr != nil {
		fmt.Fprintln(os.Stderr, errOut)
		fatal("%v", firstErr)
	}

	// merge
	m := &shardResult{Exhaustive: true, Counters: map[string]int64{}, Bounds: map[string]any{}}
	seen := map[string]bool{}
	for _, r := range results {
		m.Evaluations += r.Evaluations
		m.Distinct += r.Distinct
		m.States += r.States
		m.Transitions += r.Transitions
		m.Exhaustive = m.Exhaustive && r.Exhaustive
		m.Suppressed += r.Suppressed
		if m.Rule == "" {
			m.Rule = r.Rule
		}
		for _, s := range r.Samples {
			if len(m.Samples) < 64 {
				m.Samples = append(m.Samples, s)
			}
		}
		for k, v := range r.Counters {
			m.Counters[k] += v
		}
		for k, v := range r.Bounds {
			m.Bounds[k] = v
		}
		for _, n := range r.Notes {
			dup := false
			for _, e := range m.Notes {
				if e == n {
					dup = true
				}
			}
			if !dup {
				m.Notes = append(m.Notes, n)
			}
		}
		for _, v := range r.Violations {
			if !seen[v.Key] {
				seen[v.Key] = true
				m.Violations = append(m.Violations, v)
			}
		}
	}
	sort.Slice(m.Violations, func(i, j int) bool { return m.Violations[i].Key < m.Violations[j].Key })

	// classify
	known := loadKnown(spec.ID)
	var fresh []violation
	knownHit := 0
	for _, v := range m.Violations {
		if what, ok := known[v.Key]; ok {
			fmt.Printf("KNOWN-FINDING: property=%s key=%s :: %s\n", spec.ID, v.Key, what)
			knownHit++
			continue
		}
		fresh = append(fresh, v)
	}
	// validate new violations by replay, then report
	exit := 0
	reported := 0
	outDir := envOr("VERIF_OUT_DIR", verifDir)
	os.MkdirAll(filepath.Join(outDir, "replays", spec.ID), 0o755)
	var unconfirmed []string
	for i, v := range fresh {
		h := sha1.Sum([]byte(v.Key))
		rp := filepath.Join(outDir, "replays", spec.ID, fmt.Sprintf("%x.json", h[:6]))
		b, _ := json.MarshalIndent(map[string]any{"property": spec.ID, "key": v.Key, "desc": v.Desc, "replay": v.Replay,
			"replay_cmd": fmt.Sprintf("bin/check %s --replay %s", spec.ID, rp)}, "", " ")
		os.WriteFile(rp, b, 0o644)
		confirmed := true
		if i < 5 && !spec.NoReplayValidation {
			times := 2
			if i == 0 {
				times = 5
			}
			for k := 0; k < times; k++ {
				r, _, err := runShard(0, 1, rp, budget)
				if err != nil || r.Replayed == nil || !*r.Replayed {
					confirmed = false
					break
				}
			}
		}
		if !confirmed {
			unconfirmed = append(unconfirmed, v.Key)
			fmt.Printf("UNCONFIRMED property=%s key=%s (did not reproduce on replay; not reported as violation) :: %s\n", spec.ID, v.Key, v.Desc)
			continue
		}
		fmt.Printf("VIOLATION property=%s replay=%s key=%s :: %s\n", spec.ID, rp, v.Key, oneLine(v.Desc))
		reported++
		exit = 1
	}

	// evidence
	if m.Samples == nil {
		m.Samples = []any{}
	}
	cov := map[string]any{
		"evaluations":           m.Evaluations,
		"distinct_nontrivial":   m.Distinct,
		"rule":                  m.Rule,
		"samples":               m.Samples,
		"exhaustive":            m.Exhaustive,
		"bounds":                m.Bounds,
		"counters":              m.Counters,
		"notes":                 m.Notes,
		"shards":                shards,
		"known_findings_hit":    knownHit,
		"unconfirmed_on_replay": unconfirmed,
	}
	if spec.Level == "model_checking" {
		cov["states"] = m.States
		cov["transitions"] = m.Transitions
		cov["traces_validated_against_impl"] = m.Transitions
	}
	if spec.Level == "translation_validation" {
		cov["programs"] = m.Counters["programs"]
		cov["disagreements_checked"] = m.Counters["disagreements_checked"]
	}
	var seedN int64
	fmt.Sscan(seed, &seedN)
	ev := map[string]any{
		"property_id": spec.ID,
		"tier":        tier,
		"seed":        seedN,
		"level":       spec.Level,
		"coverage":    cov,
		"assumptions": spec.Assumptions,
		"wall_s":      time.Since(start).Seconds(),
		"violations":  reported,
	}
	eb, _ := json.MarshalIndent(ev, "", " ")
	os.MkdirAll(filepath.Join(outDir, "evidence"), 0o755)
	if err := os.WriteFile(filepath.Join(outDir, "evidence", spec.ID+".json"), eb, 0o644); err != nil {
		fatal("%v", err)
	}
	fmt.Printf("%s tier=%s evaluations=%d distinct=%d states=%d transitions=%d exhaustive=%v known=%d violations=%d wall=%.1fs\n",
		spec.ID, tier, m.Evaluations, m.Distinct, m.States, m.Transitions, m.Exhaustive, knownHit, reported, time.Since(start).Seconds())
	return exit
}

func oneLine(s string) string {
	s = strings.ReplaceAll(s, "\n", " | ")
	if len(s) > 600 {
		s = s[:600] + "…"
	}
	return s
}

// loadKnown reads known_findings.txt: lines
//
//	finding: property=<id> key=<key> :: <what fails>
//	fixed: property=<id> <commit> <what failed>
//
// Only "finding:" lines suppress anything.
func loadKnown(id string) map[string]string {
	out := map[string]string{}
	b, err := os.ReadFile(filepath.Join(verifDir, "known_findings.txt"))
	if err != nil {
		return out
	}
	// VERIF_KNOWN_EXTRA: an additional findings file, used only while triaging
	// (never set by the registered commands).
	if extra := os.Getenv("VERIF_KNOWN_EXTRA"); extra != "" {
		if eb, err := os.ReadFile(extra); err == nil {
			b = append(append(b, '\n'), eb...)
		}
	}
	for _, line := range strings.Split(string(b), "\n") {
		line = strings.TrimSpace(line)
		if !strings.HasPrefix(line, "finding: property="+id+" key=") {
			continue
		}
		rest := strings.TrimPrefix(line, "finding: property="+id+" key=")
		i := strings.Index(rest, " :: ")
		if i < 0 {
			out[rest] = ""
			continue
		}
		out[rest[:i]] = rest[i+4:]
	}
	return out
}
