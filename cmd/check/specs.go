package main

import (
	"encoding/json"
	"os"
	"path/filepath"
	"sort"

	"verif/instr"
)

// Spec describes how one property's check is bound to the repository.  It is
// read from /verif/harness/<ID>/spec.json.
type Spec struct {
	ID                 string       `json:"id"`
	Pkg                string       `json:"pkg"`        // repo-relative package that receives the harness test files
	Harness            string       `json:"harness"`    // directory under /verif/harness (default: ID)
	Libs               []string     `json:"libs"`       // shared harness library directories (under harness/) copied into the package
	HideTests          []string     `json:"hide_tests"` // extra package dirs whose own *_test.go files are hidden
	Instr              []instr.Spec `json:"instr"`      // packages rewritten for the controlled runtime
	Test               string       `json:"test"`       // test function name
	Shards             int          `json:"shards"`
	ThoroughShards     int          `json:"thorough_shards"`
	QuickBudget        int          `json:"quick_budget_s"` // seconds of internal budget per shard
	ThoroughBudget     int          `json:"thorough_budget_s"`
	Grace              int          `json:"grace_s"` // seconds added to the process timeout beyond the budget
	GoMaxProcs         int          `json:"gomaxprocs"`
	Env                []string     `json:"env"`
	Level              string       `json:"level"`
	Assumptions        []string     `json:"assumptions"`
	RaceBuild          bool         `json:"race_build"`
	NoReplayValidation bool         `json:"no_replay_validation"`
	KeepTests          bool         `json:"keep_tests"` // do not hide the package's own tests
}

func specs() []Spec {
	files, _ := filepath.Glob(filepath.Join(verifDir, "harness", "*", "spec.json"))
	sort.Strings(files)
	var out []Spec
	for _, f := range files {
		b, err := os.ReadFile(f)
		if err != nil {
			fatal("%v", err)
		}
		var s Spec
		if err := json.Unmarshal(b, &s); err != nil {
			fatal("%s: %v", f, err)
		}
		if s.Harness == "" {
			s.Harness = s.ID
		}
		if s.Grace == 0 {
			s.Grace = 120
		}
		out = append(out, s)
	}
	return out
}
