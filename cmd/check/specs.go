package main

import "verif/instr"

// Spec describes how one property's check is bound to the repository.
type Spec struct {
	ID                 string
	Pkg                string       // repo-relative package that receives the harness test files
	Harness            string       // directory under /verif/harness
	Libs               []string     // shared harness library directories copied into the package
	HideTests          []string     // extra package dirs whose own *_test.go files are hidden
	Instr              []instr.Spec // packages rewritten for the controlled runtime
	Test               string       // test function name
	Shards             int
	ThoroughShards     int
	QuickBudget        int // seconds of internal budget per shard
	ThoroughBudget     int
	Grace              int // seconds added to the process timeout beyond the budget
	GoMaxProcs         int
	Env                []string
	Level              string
	Assumptions        []string
	RaceBuild          bool
	NoReplayValidation bool
}

func full(dir string) instr.Spec {
	return instr.Spec{Dir: dir, Sync: true, Time: true, Chan: true, Race: true}
}

func specs() []Spec {
	return []Spec{
		{
			ID: "C20", Pkg: "pkg/cache", Harness: "C20", Test: "TestVerif_C20",
			Instr:  []instr.Spec{full("pkg/cache")},
			Shards: 16, QuickBudget: 60, ThoroughBudget: 600, Grace: 120, GoMaxProcs: 1, Env: []string{"GOGC=400"},
			Level: "model_checking",
			Assumptions: []string{
				"the schedule explorer interleaves at synchronisation operations (locks, atomics, channel ops, spawn); unsynchronised accesses are covered by the happens-before race monitor over instrumented field/map accesses of pkg/cache",
				"virtual clock replaces time.Now/NewTicker in pkg/cache; real-time behaviour of the Go runtime timers is not modelled",
				"values are strings of length 1..9; estimateSize for other value kinds is not exercised",
			},
		},
		{
			ID: "C11", Pkg: "cmd/glyph", Harness: "C11", Test: "TestVerif_C11",
			Instr:  []instr.Spec{full("pkg/server")},
			Shards: 16, QuickBudget: 60, ThoroughBudget: 900, Grace: 120, GoMaxProcs: 1, Env: []string{"GOGC=400"},
			Level: "model_checking",
			Assumptions: []string{
				"virtual clock replaces time.Now/NewTicker in pkg/server; the caller's clock of the property is that virtual clock",
				"advances that span more than 3 cleanup ticks fire the first 2 and the last due tick only (the cleanup handler only deletes entries that are stale at the tick instant, which is monotone in time while no request intervenes)",
				"client identity = RemoteAddr host; requests are built with httptest and handed to the middleware chain directly (no TCP)",
			},
		},
	}
}
